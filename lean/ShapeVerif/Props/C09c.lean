/-
C09c — a transformed curve IS the curve of the transformed control points, for EVERY degree.

`move / scale / rotate` change the control points (C09: every cell exactly once).  That this moves every POINT of a curved
boundary by the same map is the affine invariance of Bézier curves; C09.lean had it for polygons only.  Here, for control
polygons of every length and every rational parameter t (Proofs/AffineGen.lean):
   (T ∘ seg)(t) = seg_{T(control points)}(t)     for T = translation, axis scaling, exact rotation,
the derivative curve transforms by the linear part, and the boundary integrals scale as the measure does:
   ∫ x^a y^b dy over the scaled piece = sx^a · sy^(b+1) · ∫ over the piece     (every degree, all a, b),
hence the area of a scaled curved shape is sx·sy times the area, every moment m_ab scales by sx^(a+1) sy^(b+1).
-/
import ShapeVerif.Props.C09b
import ShapeVerif.Proofs.AffineGen
import ShapeVerif.Proofs.TranslateGen
import ShapeVerif.Proofs.RotateGen
import ShapeVerif.Proofs.MomentMoveGen

namespace ShapeVerif.C09
open ShapeVerif

/-- the Bernstein basis is a partition of unity (what makes translation commute with evaluation) -/
theorem bernstein_sums_to_one (n : Nat) (t : Rat) : bernsteinCoord (List.replicate (n + 1) 1) t = 1 :=
  bernstein_partition_of_unity n t

theorem curve_move_all (s : Seg) (hs : s ≠ []) (d : Pt) (t : Rat) :
    evalSeg (s.map (·.move d)) t = (evalSeg s t).move d := evalSeg_map_move s hs d t

theorem curve_scale_all (s : Seg) (sx sy : Rat) (t : Rat) :
    evalSeg (s.map (·.scale sx sy)) t = (evalSeg s t).scale sx sy := evalSeg_map_scale s sx sy t

theorem curve_rot_all (s : Seg) (c sn : Rat) (t : Rat) :
    evalSeg (s.map (·.rot c sn)) t = (evalSeg s t).rot c sn := evalSeg_map_rot s c sn t

/-- the same with the maps AS WRITTEN IN THE SOURCE (`Point2D.move`, `Point2D.scale`, regenerated in Gen/Arith.lean) -/
theorem source_curve_move_all (s : Seg) (hs : s ≠ []) (d : Pt) (t : Rat) :
    evalSeg (s.map (Gen.ptMove · d)) t = Gen.ptMove (evalSeg s t) d := by
  rw [source_move_is_model]; exact evalSeg_map_move s hs d t

theorem source_curve_scale_all (s : Seg) (sx sy : Rat) (t : Rat) :
    evalSeg (s.map (Gen.ptScale · sx sy)) t = Gen.ptScale (evalSeg s t) sx sy := by
  rw [source_scale_is_model]; exact evalSeg_map_scale s sx sy t

/-- the tangent (derivative curve) is unchanged by a translation and scaled by a scaling -/
theorem tangent_move_all (s : Seg) (hs : 2 ≤ s.length) (d : Pt) : derivSeg (s.map (·.move d)) = derivSeg s :=
  derivSeg_map_move s hs d

theorem tangent_scale_all (s : Seg) (sx sy : Rat) : derivSeg (s.map (·.scale sx sy)) = (derivSeg s).map (·.scale sx sy) :=
  derivSeg_map_scale s sx sy

/-- boundary integrals of a scaled piece of ANY degree -/
theorem integral_scale_all (s : Seg) (hs : 2 ≤ s.length) (sx sy : Rat) (a b : Nat) :
    exactVertical (s.map (·.scale sx sy)) a b = sx ^ a * sy ^ (b + 1) * exactVertical s a b :=
  exactVertical_scale s hs sx sy a b

/-- the signed area ∫ x dy of a closed curve with pieces of any degree scales by sx·sy -/
theorem area_scale_all (j : Jordan) (hj : ∀ s ∈ j, 2 ≤ s.length) (sx sy : Rat) :
    Jordan.area (j.map (·.scale sx sy)) = sx * sy * Jordan.area j := by
  unfold Jordan.area jordanExactVertical Jordan.map
  induction j with
  | nil => simp
  | cons s j ih =>
    have h1 := exactVertical_scale s (hj s (by simp)) sx sy 1 0
    have ih' := ih (fun s hs => hj s (List.mem_cons_of_mem _ hs))
    simp only [List.map_cons, List.sum_cons] at ih' ⊢
    rw [h1, ih']; ring

/-! ### translation: the area of a CLOSED curve with pieces of any degree does not depend on its position -/

/-- a piece starts at its first and ends at its last control point -/
theorem curve_end_points (s : Seg) (hs : s ≠ []) : evalSeg s 0 = s.headD Pt.zero ∧ evalSeg s 1 = s.getLastD Pt.zero :=
  ⟨evalSeg_zero s hs, evalSeg_one s hs⟩

/-- ∫ dy over a piece is the rise of its ordinate (fundamental theorem on coefficient lists) -/
theorem integral_dy (s : Seg) (hs : 2 ≤ s.length) : exactVertical s 0 0 = (s.getLastD Pt.zero).y - (s.headD Pt.zero).y :=
  exactVertical_dy s hs

/-- ∮ dy = 0 around every closed chain -/
theorem closed_curve_dy (j : Jordan) (hj : ∀ s ∈ j, 2 ≤ s.length)
    (hchain : ∀ p ∈ j.zip (j.tail ++ j.take 1), (p.1.getLastD Pt.zero).y = (p.2.headD Pt.zero).y) :
    jordanExactVertical j 0 0 = 0 := closed_chain_dy j hj hchain

/-- moving a piece: ∫ (x + dx) dy = ∫ x dy + dx ∫ dy -/
theorem integral_move (s : Seg) (hs : 2 ≤ s.length) (d : Pt) :
    exactVertical (s.map (·.move d)) 1 0 = exactVertical s 1 0 + d.x * exactVertical s 0 0 := exactVertical_move s hs d

/-- hence the signed area of a closed curve with pieces of any degree is invariant under translation -/
theorem area_move_all (j : Jordan) (hj : ∀ s ∈ j, 2 ≤ s.length)
    (hchain : ∀ p ∈ j.zip (j.tail ++ j.take 1), (p.1.getLastD Pt.zero).y = (p.2.headD Pt.zero).y) (d : Pt) :
    Jordan.area (j.map (·.move d)) = Jordan.area j :=
  area_move_closed j hj (closed_chain_dy j hj hchain) d

/-! ### rotation: the area of a CLOSED curve with pieces of any degree is invariant under every exact rotation -/

/-- one piece: ∫ x' dy' of the rotated piece = (c² + s²) ∫ x dy + a term that depends only on the two end points -/
theorem integral_rot (s : Seg) (hs : 2 ≤ s.length) (c sn : Rat) :
    exactVertical (s.map (·.rot c sn)) 1 0
      = (c * c + sn * sn) * exactVertical s 1 0
        + c * sn * (((s.getLastD Pt.zero).x ^ 2 - (s.headD Pt.zero).x ^ 2) - ((s.getLastD Pt.zero).y ^ 2 - (s.headD Pt.zero).y ^ 2)) / 2
        - sn * sn * ((s.getLastD Pt.zero).x * (s.getLastD Pt.zero).y - (s.headD Pt.zero).x * (s.headD Pt.zero).y) :=
  exactVertical_rot s hs c sn

/-- around a closed chain the end-point terms telescope: the signed area is invariant under rotation (c² + s² = 1), any degree -/
theorem area_rot_all (j : Jordan) (hj : ∀ s ∈ j, 2 ≤ s.length)
    (hchain : ∀ p ∈ j.zip (j.tail ++ j.take 1), p.1.getLastD Pt.zero = p.2.headD Pt.zero)
    (c sn : Rat) (h : c * c + sn * sn = 1) : Jordan.area (j.map (·.rot c sn)) = Jordan.area j :=
  area_rot_closed_all j hj hchain c sn h

/-! ### the first moments (centroid) of a closed curve of any degree move with the shape -/

theorem moment10_move_all (j : Jordan) (hj : ∀ s ∈ j, 2 ≤ s.length)
    (hchain : ∀ p ∈ j.zip (j.tail ++ j.take 1), p.1.getLastD Pt.zero = p.2.headD Pt.zero) (d : Pt) :
    Jordan.moment (j.map (·.move d)) 1 0 = Jordan.moment j 1 0 + d.x * Jordan.area j := moment10_move_closed j hj hchain d

theorem moment01_move_all (j : Jordan) (hj : ∀ s ∈ j, 2 ≤ s.length)
    (hchain : ∀ p ∈ j.zip (j.tail ++ j.take 1), p.1.getLastD Pt.zero = p.2.headD Pt.zero) (d : Pt) :
    Jordan.moment (j.map (·.move d)) 0 1 = Jordan.moment j 0 1 + d.y * Jordan.area j := moment01_move_closed j hj hchain d

/-! non-vacuity: a cubic moved, scaled and rotated (3-4-5) agrees with the moved / scaled / rotated point of the curve -/
example : evalSeg (([⟨0,0⟩, ⟨1,2⟩, ⟨3,0⟩, ⟨4,1⟩] : Seg).map (·.rot (3/5) (4/5))) (1/3)
    = (evalSeg [⟨0,0⟩, ⟨1,2⟩, ⟨3,0⟩, ⟨4,1⟩] (1/3)).rot (3/5) (4/5) := curve_rot_all _ _ _ _

end ShapeVerif.C09
