/-
C06b — `~shape` as it is BUILT in the source (regenerated table `Gen.invertRule`): Simple ↦ the simple shape of the reversed
curve, Connected ↦ `DisjointShape` of the complements of its members (De Morgan), Disjoint ↦ all curves reversed and regrouped.

PROVED for the regenerated table, for all shapes, at every point where reversing a curve complements its region (C03b
`memW_invert_of_jordanAt`: proved from `wind_invert` / `area_invert` under the winding-range hypothesis of C02):
 * `invert_simple_is_complement`, `invert_connected_is_complement` — the construction denotes exactly the complement region, so the
   kind table of the documentation (`~Simple` is Simple, `~Connected` is Disjoint) comes with the right REGION, not only the right kind;
 * `invert_involutive_region` — applying the construction twice gives back the region (the curves are reversed twice: `invert_invert`);
 * `invert_connected_members` — the members of `~Connected` are exactly the reversed member curves, one component each
   (no curve is lost or duplicated by the complement).
For Disjoint operands the regrouping (`ShapeFromJordans`) is certified per run by `regionCompl` (C06), not constructed in the model.
-/
import ShapeVerif.Props.C06
import ShapeVerif.Props.C03b
import ShapeVerif.Proofs.Slab

namespace ShapeVerif.C06
open ShapeVerif ShapeVerif.C03

/-- the regenerated rules -/
theorem invert_table :
    Gen.invertRule .simple = .simpleOfInvertedCurve ∧ Gen.invertRule .connected = .disjointOfInvertedSubs ∧
    Gen.invertRule .disjoint = .regroupInvertedCurves := ⟨rfl, rfl, rfl⟩

/-- `~Simple`: the complement region -/
theorem invert_simple_is_complement (reg : Jordan → Bool) (j : Jordan) (hinv : reg j.invert = !reg j) :
    (Shape.invertBy Gen.invertRule (.simple j)).map (memAt reg) = some (!memAt reg (.simple j)) := by
  simp [Shape.invertBy, Gen.invertRule, memAt, hinv]

/-- `~Connected` = union of the complements of the members = complement of the intersection (De Morgan), pointwise -/
theorem invert_connected_is_complement (reg : Jordan → Bool) (js : List Jordan) (hinv : ∀ j ∈ js, reg j.invert = !reg j) :
    (Shape.invertBy Gen.invertRule (.connected js)).map (memAt reg) = some (!memAt reg (.connected js)) := by
  simp only [Shape.invertBy, Gen.invertRule, Option.map_some, memAt, Option.some.injEq]
  induction js with
  | nil => rfl
  | cons j js ih =>
    simp only [List.map_cons, List.any_cons, List.all_cons, List.all_nil, Bool.and_true, Bool.not_and]
    rw [hinv j (by simp), ih (fun j' hj' => hinv j' (List.mem_cons_of_mem _ hj'))]

/-- Empty and Whole swap -/
theorem invert_singletons : Shape.invertBy Gen.invertRule .empty = some .whole ∧ Shape.invertBy Gen.invertRule .whole = some .empty :=
  ⟨rfl, rfl⟩

/-- the members of `~Connected` are the reversed member curves, one component each -/
theorem invert_connected_members (js : List Jordan) :
    Shape.invertBy Gen.invertRule (.connected js) = some (.disjoint (js.map fun j => [j.invert])) := rfl

/-- reversing a curve twice gives the curve back -/
theorem invert_invert (j : Jordan) : j.invert.invert = j := by
  unfold Jordan.invert
  rw [List.map_reverse, List.reverse_reverse, List.map_map]
  have : (List.reverse ∘ List.reverse : Seg → Seg) = id := by funext s; simp
  rw [this, List.map_id]

/-- `~~Simple` is the simple shape of the same curve -/
theorem invert_involutive_simple (j : Jordan) :
    (Shape.invertBy Gen.invertRule (.simple j)).bind (Shape.invertBy Gen.invertRule) = some (.simple j) := by
  simp [Shape.invertBy, Gen.invertRule, invert_invert]

/-- with the model's winding-number regions: `~Simple` and `~Connected` are the complement at every point where the member curves have
the winding range of simple closed curves -/
theorem invert_connected_region (js : List Jordan) (r : Pt) (h : ∀ j ∈ js, JordanAt j r) :
    (Shape.invertBy Gen.invertRule (.connected js)).map (fun S => S.memW r) = some (!(Shape.connected js).memW r) := by
  have := invert_connected_is_complement (fun j => ShapeVerif.memW j r) js (fun j hj => memW_invert_of_jordanAt j r (h j hj))
  simpa [memW_eq_memAt] using this

/-! ### boundary curves that touch themselves: what `curveOK` accepts -/

/-- an accepted boundary curve is a simple closed polygon, or a weakly simple one -/
theorem curve_ok_cases (j : Jordan) (h : curveOK j = true) : simpleJ j = true ∨ weaklySimpleJ j = true := by
  unfold curveOK at h
  simpa [Bool.or_eq_true] using h

/-- what "weakly simple" means: straight pieces, at least three, chained cyclically, none of zero length, no two distinct edges overlap along
a piece, and — at EVERY point off the edges outside finitely many vertical lines — the crossing number is 0 or the orientation sign:
the winding range of a simple closed curve.  A curve that crosses itself has a lobe of the opposite sign or a doubly covered region and is
rejected; a curve that only touches itself at isolated points (the boundary of `A ^ B` where the boundaries of A and B cross) is accepted. -/
theorem weakly_simple_facts (j : Jordan) (h : weaklySimpleJ j = true) :
    j.isPolygon = true ∧ 3 ≤ j.edges.length ∧
    (∀ ef ∈ j.edges.zip (j.edges.tail ++ j.edges.take 1), ef.1.q = ef.2.p ∧ ef.1.p ≠ ef.1.q) ∧
    (∀ (i k : Nat) (e f : Edge), (e, i) ∈ j.edges.zipIdx → (f, k) ∈ j.edges.zipIdx → i < k → edgesOverlap e f = false) ∧
    (∀ r : Pt, r.x ∉ criticalXs j.edges → OffLines j.edges r →
        wind j.edges r = 0 ∨ wind j.edges r = (if j.ccw then 1 else -1)) := by
  simp only [weaklySimpleJ, Bool.and_eq_true, decide_eq_true_eq] at h
  obtain ⟨⟨⟨⟨h1, h2⟩, h3⟩, h4⟩, h5⟩ := h
  refine ⟨h1, h2, ?_, ?_, ?_⟩
  · intro ef hef
    have := List.all_eq_true.mp h3 ef hef
    simpa [Bool.and_eq_true] using this
  · intro i k e f he hf hik
    have := List.all_eq_true.mp (List.all_eq_true.mp h4 (e, i) he) (f, k) hf
    have hki : ¬ k ≤ i := by omega
    simpa [hki] using this
  · intro r hx hoff
    unfold windRangeOK at h5
    have := slabCheck_sound j.edges _ (fun r r' hrr => by
      simp only [wind_congr j.edges r r' hrr]) h5 r hx hoff
    simpa [Bool.or_eq_true] using this

/-- in particular a weakly simple result curve satisfies, at every generic point, the hypothesis under which C02 / C03b identify its
winding-number region with "inside" — checked and proved per result, not assumed -/
theorem weakly_simple_wind_range (j : Jordan) (h : weaklySimpleJ j = true) (r : Pt)
    (hx : r.x ∉ criticalXs j.edges) (hoff : OffLines j.edges r) :
    wind j.edges r = 0 ∨ wind j.edges r = (if j.ccw then 1 else -1) := (weakly_simple_facts j h).2.2.2.2 r hx hoff

/-! a bow-tie that CROSSES itself is rejected, two triangles joined at a vertex (touching) are accepted -/
example : curveOK (Jordan.fromVertices [⟨0,0⟩, ⟨2,2⟩, ⟨2,0⟩, ⟨0,2⟩]) = false := by decide +kernel
example : simpleJ (Jordan.fromVertices [⟨0,0⟩, ⟨2,0⟩, ⟨1,1⟩, ⟨2,2⟩, ⟨0,2⟩, ⟨1,1⟩]) = false ∧
    curveOK (Jordan.fromVertices [⟨0,0⟩, ⟨2,0⟩, ⟨1,1⟩, ⟨2,2⟩, ⟨0,2⟩, ⟨1,1⟩]) = true := by decide +kernel
-- a curve that retraces an edge (a spike) is rejected
example : curveOK (Jordan.fromVertices [⟨0,0⟩, ⟨2,0⟩, ⟨2,2⟩, ⟨3,2⟩, ⟨2,2⟩, ⟨0,2⟩]) = false := by decide +kernel

/-! non-vacuity: the ring (0,0)-(4,4) minus (1,1)-(2,2); its complement as built contains the hole's centre and a far point, not a ring point -/
example : (Shape.invertBy Gen.invertRule ring).map (fun S => (S.memW ⟨3/2, 3/2⟩, S.memW ⟨9, 9⟩, S.memW ⟨3, 3⟩)) = some (true, true, false) := by
  decide +kernel

end ShapeVerif.C06
