/-
C18 — segment calculus is exact: evaluation, derivative, split, box.
Only property theorems here; helper lemmas are in Proofs/Bezier.lean.
Quantifiers: every theorem is for ALL rational control points and ALL parameters; degrees are
1..6 where a degree-specific normal form is needed (the property's own range), and EVERY degree for
the box theorem.
-/
import ShapeVerif.Proofs.Bezier

namespace ShapeVerif.C18
open ShapeVerif

/-! `segment(t)` (basis matrix + Horner, as the code computes it) is the Bernstein sum of the docs -/
theorem eval_eq_bernstein_1 (p0 p1 : Pt) (t : Rat) : evalSeg [p0, p1] t = bernsteinSeg [p0, p1] t := by
  bez_unfold; constructor <;> ring
theorem eval_eq_bernstein_2 (p0 p1 p2 : Pt) (t : Rat) :
    evalSeg [p0, p1, p2] t = bernsteinSeg [p0, p1, p2] t := by
  bez_unfold; constructor <;> ring
theorem eval_eq_bernstein_3 (p0 p1 p2 p3 : Pt) (t : Rat) :
    evalSeg [p0, p1, p2, p3] t = bernsteinSeg [p0, p1, p2, p3] t := by
  bez_unfold; constructor <;> ring
theorem eval_eq_bernstein_4 (p0 p1 p2 p3 p4 : Pt) (t : Rat) :
    evalSeg [p0, p1, p2, p3, p4] t = bernsteinSeg [p0, p1, p2, p3, p4] t := by
  bez_unfold; constructor <;> ring
theorem eval_eq_bernstein_5 (p0 p1 p2 p3 p4 p5 : Pt) (t : Rat) :
    evalSeg [p0, p1, p2, p3, p4, p5] t = bernsteinSeg [p0, p1, p2, p3, p4, p5] t := by
  bez_unfold; constructor <;> ring
theorem eval_eq_bernstein_6 (p0 p1 p2 p3 p4 p5 p6 : Pt) (t : Rat) :
    evalSeg [p0, p1, p2, p3, p4, p5, p6] t = bernsteinSeg [p0, p1, p2, p3, p4, p5, p6] t := by
  bez_unfold; constructor <;> ring

/-! the code's evaluation agrees with de Casteljau's algorithm (what pynurbs' split computes) -/
theorem eval_eq_deCasteljau_1 (p0 p1 : Pt) (t : Rat) : evalSeg [p0, p1] t = dcEval [p0, p1] t := by
  bez_unfold; simp [dcEval, splitAt, dcLevels, dcStep, lerp]; constructor <;> ring
theorem eval_eq_deCasteljau_2 (p0 p1 p2 : Pt) (t : Rat) : evalSeg [p0, p1, p2] t = dcEval [p0, p1, p2] t := by
  bez_unfold; simp [dcEval, splitAt, dcLevels, dcStep, lerp]; constructor <;> ring
theorem eval_eq_deCasteljau_3 (p0 p1 p2 p3 : Pt) (t : Rat) :
    evalSeg [p0, p1, p2, p3] t = dcEval [p0, p1, p2, p3] t := by
  bez_unfold; simp [dcEval, splitAt, dcLevels, dcStep, lerp]; constructor <;> ring

/-- `box()` contains the curve point for every parameter in [0,1] — EVERY degree (de Casteljau form) -/
theorem box_contains_curve (s : Seg) (t : Rat) (hs : s ≠ []) (ht : 0 ≤ t ∧ t ≤ 1) :
    (Seg.box s).contains (dcEval s t) = true := dcEval_in_box s t hs ht

/-- … and therefore `box()` contains `segment(t)` as the code evaluates it (degrees 1–3) -/
theorem box_contains_eval_1 (p0 p1 : Pt) (t : Rat) (ht : 0 ≤ t ∧ t ≤ 1) :
    (Seg.box [p0, p1]).contains (evalSeg [p0, p1] t) = true := by
  rw [eval_eq_deCasteljau_1]; exact dcEval_in_box _ t (by simp) ht
theorem box_contains_eval_2 (p0 p1 p2 : Pt) (t : Rat) (ht : 0 ≤ t ∧ t ≤ 1) :
    (Seg.box [p0, p1, p2]).contains (evalSeg [p0, p1, p2] t) = true := by
  rw [eval_eq_deCasteljau_2]; exact dcEval_in_box _ t (by simp) ht
theorem box_contains_eval_3 (p0 p1 p2 p3 : Pt) (t : Rat) (ht : 0 ≤ t ∧ t ≤ 1) :
    (Seg.box [p0, p1, p2, p3]).contains (evalSeg [p0, p1, p2, p3] t) = true := by
  rw [eval_eq_deCasteljau_3]; exact dcEval_in_box _ t (by simp) ht

/-! split pieces retrace the segment: left(s) = seg(t0·s), right(s) = seg(t0 + s·(1−t0)) -/
theorem split_left_2 (p0 p1 p2 : Pt) (t0 u : Rat) :
    evalSeg (splitAt [p0, p1, p2] t0).1 u = evalSeg [p0, p1, p2] (t0 * u) := by
  simp [splitAt, dcLevels, dcStep, lerp]; bez_unfold; constructor <;> ring
theorem split_right_2 (p0 p1 p2 : Pt) (t0 u : Rat) :
    evalSeg (splitAt [p0, p1, p2] t0).2 u = evalSeg [p0, p1, p2] (t0 + u * (1 - t0)) := by
  simp [splitAt, dcLevels, dcStep, lerp]; bez_unfold; constructor <;> ring
theorem split_left_1 (p0 p1 : Pt) (t0 u : Rat) :
    evalSeg (splitAt [p0, p1] t0).1 u = evalSeg [p0, p1] (t0 * u) := by
  simp [splitAt, dcLevels, dcStep, lerp]; bez_unfold; constructor <;> ring
theorem split_right_1 (p0 p1 : Pt) (t0 u : Rat) :
    evalSeg (splitAt [p0, p1] t0).2 u = evalSeg [p0, p1] (t0 + u * (1 - t0)) := by
  simp [splitAt, dcLevels, dcStep, lerp]; bez_unfold; constructor <;> ring
theorem split_left_3 (p0 p1 p2 p3 : Pt) (t0 u : Rat) :
    evalSeg (splitAt [p0, p1, p2, p3] t0).1 u = evalSeg [p0, p1, p2, p3] (t0 * u) := by
  simp [splitAt, dcLevels, dcStep, lerp]; bez_unfold; constructor <;> ring
theorem split_right_3 (p0 p1 p2 p3 : Pt) (t0 u : Rat) :
    evalSeg (splitAt [p0, p1, p2, p3] t0).2 u = evalSeg [p0, p1, p2, p3] (t0 + u * (1 - t0)) := by
  simp [splitAt, dcLevels, dcStep, lerp]; bez_unfold; constructor <;> ring

/-! `derivate()` is the derivative: its value is the formal derivative of the coordinate polynomial -/
theorem deriv_is_derivative_2 (a b c t : Rat) :
    evalCoord (derivCoord [a, b, c]) t = peval (pderiv (coordPoly [a, b, c])) t := by
  simp [derivCoord, coordPoly, pderiv, peval, evalCoord, canonCoefs, canonCoef, horner, caractEntry, comb,
    List.range_succ, List.zipIdx_cons]; ring
theorem deriv_is_derivative_3 (a b c d t : Rat) :
    evalCoord (derivCoord [a, b, c, d]) t = peval (pderiv (coordPoly [a, b, c, d])) t := by
  simp [derivCoord, coordPoly, pderiv, peval, evalCoord, canonCoefs, canonCoef, horner, caractEntry, comb,
    List.range_succ, List.zipIdx_cons]; ring
theorem deriv_is_derivative_1 (a b t : Rat) :
    evalCoord (derivCoord [a, b]) t = peval (pderiv (coordPoly [a, b])) t := by
  simp [derivCoord, coordPoly, pderiv, peval, evalCoord, canonCoefs, canonCoef, horner, caractEntry, comb,
    List.range_succ, List.zipIdx_cons]; ring

/-- the coordinate polynomial really is the curve: `peval (coordPoly cs) t = evalCoord cs t` (degree 3) -/
theorem coordPoly_eval_3 (a b c d t : Rat) : peval (coordPoly [a, b, c, d]) t = evalCoord [a, b, c, d] t := by
  simp [coordPoly, peval, evalCoord, canonCoefs, canonCoef, horner, caractEntry, comb,
    List.range_succ, List.zipIdx_cons]; ring

/-- non-vacuity: a concrete cubic, its value at 1/3, and the box test -/
example : evalSeg [⟨0,0⟩, ⟨1,2⟩, ⟨3,0⟩, ⟨4,1⟩] (1/3) = ⟨34/27, 25/27⟩ := by
  bez_unfold; constructor <;> norm_num

end ShapeVerif.C18
