/-
C02 — point membership with the documented boundary rule.

FULL STATEMENT (informal, over the real code): `p in shape` / `shape.contains_point(p, boundary)` is
"inside a counter-clockwise boundary / outside a clockwise one; a point ON the boundary is contained iff
`boundary=True`; a ConnectedShape contains p iff every sub-shape does, a DisjointShape iff some component
does; EmptyShape contains nothing, WholeShape everything".

What is PROVED here (all quantifiers unbounded unless said otherwise):
 1. `boundary_rule_table` — the comparison table REGENERATED from `SimpleShape._contains_point`
    (Gen/Dispatch.lean) equals the model's `simpleTable` and equals `docRule`, the table written down from
    the prose, for both orientations and both flags: generated = model on all five values −2 … 2 of twice
    the winding number (on the values the winding number can take; a source rewrite that is equal there re-proves); model = `docRule` on the three values
    that can occur for the orientation (ccw: 0, 1, 2; cw: −2, −1, 0) — the prose says nothing about the
    others, and for a clockwise curve with `boundary=True` the code's test `w2 > -2` would answer True
    on the impossible values 1, 2.
 2. `composite_quantifiers` — the regenerated loops are `all` (Connected) and `any` (Disjoint), and the
    model's `Shape.mem` is exactly that; Empty ↦ false, Whole ↦ true.
 3. `boundary_point_rule` — for EVERY polygon and EVERY point on its boundary (exact test), membership is
    the flag.  `open_membership_is_winding` (C01) and `closed_membership_is_winding` — off the boundary
    both flags give the winding-number region.  The closed version needs `wind ∈ {0, ±1}` (sign =
    orientation): that is what the Jordan curve theorem gives for SIMPLE closed polygons; the Jordan
    curve theorem itself is not proved here (hypothesis), the open version needs no hypothesis.
 4. winding algebra for ALL edge lists: additivity over `++`, invariance under permutation of the edges
    (in particular under the choice of the start vertex: `wind_rotate`), reversal negates
    (`wind_reverse_edges`), `Jordan.invert` negates (`wind_invert`; proved for every curve, polygon or
    not — for non-polygons `edges` are the chords).
 5. ground truth anchor: for every axis-parallel rectangle the crossing number is 1 at every strictly
    interior point and 0 at every strictly exterior point; hence `memW`/`memJ` agree with the geometric
    truth there (`rect_mem_interior`, `rect_mem_exterior`).

NOT proved: that `wind` equals the geometric winding number for arbitrary simple polygons (the Jordan
curve theorem); the float tolerance `onBoundaryTol` of the code versus the exact `onBoundary` (C04); curved
segments (the model's `wind` is for polygons).
-/
import ShapeVerif.Proofs.Algebra
import ShapeVerif.Gen.Dispatch

namespace ShapeVerif.C02
open ShapeVerif ShapeVerif.Alg

/-- the documented rule, on twice the winding value `w2` (2 = interior of a ccw curve, ±1 = on the
boundary, 0 = outside a ccw curve / in the region of a cw curve, −2 = inside the hole of a cw curve) -/
def docRule (ccw b : Bool) (w2 : Int) : Bool :=
  if ccw then (if w2 = 2 then true else if w2 = 1 then b else false)
  else (if w2 = 0 then true else if w2 = -1 then b else false)

/-- (1) generated table = model table = documented rule -/
theorem boundary_rule_table : ∀ ccw b : Bool, ∀ w2 ∈ ([-2, -1, 0, 1, 2] : List Int),
    Gen.simpleTable ccw b w2 = simpleTable ccw b w2 ∧
    (w2 ∈ (if ccw then [0, 1, 2] else [-2, -1, 0] : List Int) → simpleTable ccw b w2 = docRule ccw b w2) := by
  decide

/-- (2) Connected = all, Disjoint = any, Empty = nothing, Whole = everything -/
theorem composite_quantifiers :
    (Gen.connectedQuant = .all ∧ Gen.disjointQuant = .any) ∧
    (∀ (js : List Jordan) (r : Pt) (b : Bool), (Shape.connected js).mem r b = js.all (memJ · r b)) ∧
    (∀ (cs : List (List Jordan)) (r : Pt) (b : Bool),
        (Shape.disjoint cs).mem r b = cs.any (·.all (memJ · r b))) ∧
    (∀ (j : Jordan) (r : Pt) (b : Bool), (Shape.simple j).mem r b = memJ j r b) ∧
    (∀ (r : Pt) (b : Bool), Shape.empty.mem r b = false) ∧
    (∀ (r : Pt) (b : Bool), Shape.whole.mem r b = true) :=
  ⟨by decide, fun _ _ _ => rfl, fun _ _ _ => rfl, fun _ _ _ => rfl, fun _ _ => rfl, fun _ _ => rfl⟩

/-- (3) a boundary point is contained iff the flag says so — every curve, both orientations -/
theorem boundary_point_rule (j : Jordan) (r : Pt) (b : Bool) (h : j.onBoundary r = true) : memJ j r b = b :=
  memJ_on_boundary j r b h

/-- (3) off the boundary the closed rule is the winding-number region, given the winding-number range of
a simple closed curve (Jordan curve theorem: 0 outside, +1 / −1 inside a ccw / cw curve) -/
theorem closed_membership_is_winding (j : Jordan) (r : Pt) (h : j.onBoundary r = false)
    (hw : wind j.edges r = 0 ∨ wind j.edges r = (if j.ccw then 1 else -1)) :
    memJ j r true = memW j r := memJ_closed_off_boundary j r h hw

/-- hence off the boundary the flag is irrelevant -/
theorem flag_irrelevant_off_boundary (j : Jordan) (r : Pt) (h : j.onBoundary r = false)
    (hw : wind j.edges r = 0 ∨ wind j.edges r = (if j.ccw then 1 else -1)) :
    memJ j r true = memJ j r false := by
  rw [memJ_closed_off_boundary j r h hw]
  unfold memJ memW windHalves simpleTable
  simp only [h, Bool.false_eq_true, if_false]
  cases j.ccw <;> simp

/-- (4) the crossing number is additive over concatenation … -/
theorem wind_append (l1 l2 : List Edge) (r : Pt) : wind (l1 ++ l2) r = wind l1 r + wind l2 r :=
  Alg.wind_append l1 l2 r

/-- … invariant under any reordering of the edges … -/
theorem wind_perm (l1 l2 : List Edge) (h : l1.Perm l2) (r : Pt) : wind l1 r = wind l2 r :=
  Alg.wind_perm h r

/-- … in particular under the choice of the start vertex (rotation of the edge cycle) … -/
theorem wind_rotate (es : List Edge) (k : Nat) (r : Pt) : wind (rotateL es k) r = wind es r := by
  unfold rotateL
  rw [Alg.wind_append, Int.add_comm, ← Alg.wind_append, List.take_append_drop]

/-- … and negated by reversing every edge (in any order) -/
theorem wind_reverse_edges (es : List Edge) (r : Pt) :
    wind (es.map fun e => (⟨e.q, e.p⟩ : Edge)) r = - wind es r := Alg.wind_map_rev es r

/-- `~simple` (`JordanCurve.invert`) negates the crossing number at every point -/
theorem wind_invert (j : Jordan) (r : Pt) : wind j.invert.edges r = - wind j.edges r := Alg.wind_invert j r

/-- the stated polygon form -/
theorem wind_invert_polygon (j : Jordan) (_h : j.isPolygon = true) (r : Pt) :
    wind j.invert.edges r = - wind j.edges r := Alg.wind_invert j r

/-- (5) ground truth: rectangle `[x0,x1] × [y0,y1]`, strictly inside -/
theorem rect_wind_interior (x0 y0 x1 y1 : Rat) (r : Pt) (hx : x0 < x1) (hy : y0 < y1)
    (h : (x0 < r.x ∧ r.x < x1) ∧ (y0 < r.y ∧ r.y < y1)) :
    wind (Jordan.fromVertices [⟨x0, y0⟩, ⟨x1, y0⟩, ⟨x1, y1⟩, ⟨x0, y1⟩]).edges r = 1 :=
  rect_wind_inside x0 y0 x1 y1 r hx hy h.1.1 h.1.2 h.2.1 h.2.2

/-- (5) strictly outside -/
theorem rect_wind_exterior (x0 y0 x1 y1 : Rat) (r : Pt) (hx : x0 < x1) (hy : y0 < y1)
    (h : r.x < x0 ∨ x1 < r.x ∨ r.y < y0 ∨ y1 < r.y) :
    wind (Jordan.fromVertices [⟨x0, y0⟩, ⟨x1, y0⟩, ⟨x1, y1⟩, ⟨x0, y1⟩]).edges r = 0 :=
  rect_wind_outside x0 y0 x1 y1 r hx hy h

/-- the rectangle is counter-clockwise, so its region (`memW`) is exactly "strictly inside" on the
complement of the boundary lines -/
theorem rect_ccw (x0 y0 x1 y1 : Rat) (hx : x0 < x1) (hy : y0 < y1) :
    (Jordan.fromVertices [⟨x0, y0⟩, ⟨x1, y0⟩, ⟨x1, y1⟩, ⟨x0, y1⟩]).ccw = true := by
  simp only [Jordan.ccw, Geom.area_fromVertices4, decide_eq_true_eq]
  have := mul_pos (sub_pos.mpr hx) (sub_pos.mpr hy)
  nlinarith

theorem rect_mem_interior (x0 y0 x1 y1 : Rat) (r : Pt) (hx : x0 < x1) (hy : y0 < y1)
    (h : (x0 < r.x ∧ r.x < x1) ∧ (y0 < r.y ∧ r.y < y1)) :
    memW (Jordan.fromVertices [⟨x0, y0⟩, ⟨x1, y0⟩, ⟨x1, y1⟩, ⟨x0, y1⟩]) r = true := by
  unfold memW
  rw [rect_ccw x0 y0 x1 y1 hx hy, if_pos rfl, rect_wind_interior x0 y0 x1 y1 r hx hy h]; rfl

theorem rect_mem_exterior (x0 y0 x1 y1 : Rat) (r : Pt) (hx : x0 < x1) (hy : y0 < y1)
    (h : r.x < x0 ∨ x1 < r.x ∨ r.y < y0 ∨ y1 < r.y) :
    memW (Jordan.fromVertices [⟨x0, y0⟩, ⟨x1, y0⟩, ⟨x1, y1⟩, ⟨x0, y1⟩]) r = false := by
  unfold memW
  rw [rect_ccw x0 y0 x1 y1 hx hy, if_pos rfl, rect_wind_exterior x0 y0 x1 y1 r hx hy h]; rfl

/-! ### non-vacuity -/
def sq : Jordan := Jordan.fromVertices [⟨0, 0⟩, ⟨2, 0⟩, ⟨2, 2⟩, ⟨0, 2⟩]
-- interior, exterior, an edge point and a vertex, with both flags; and the inverted (clockwise) square
example : memJ sq ⟨1, 1⟩ true = true ∧ memJ sq ⟨1, 1⟩ false = true := by decide +kernel
example : memJ sq ⟨3, 1⟩ true = false ∧ memJ sq ⟨3, 1⟩ false = false := by decide +kernel
example : sq.onBoundary ⟨2, 1⟩ = true ∧ memJ sq ⟨2, 1⟩ true = true ∧ memJ sq ⟨2, 1⟩ false = false := by
  decide +kernel
example : sq.onBoundary ⟨0, 0⟩ = true ∧ memJ sq ⟨0, 0⟩ true = true ∧ memJ sq ⟨0, 0⟩ false = false := by
  decide +kernel
example : sq.invert.ccw = false ∧ memJ sq.invert ⟨1, 1⟩ true = false ∧ memJ sq.invert ⟨3, 1⟩ false = true ∧
    memJ sq.invert ⟨2, 1⟩ true = true ∧ memJ sq.invert ⟨2, 1⟩ false = false := by decide +kernel
example : wind sq.invert.edges ⟨1, 1⟩ = -1 ∧ wind sq.edges ⟨1, 1⟩ = 1 := by decide +kernel
-- the hypothesis of `closed_membership_is_winding` is satisfiable
example : sq.onBoundary ⟨1, 1⟩ = false ∧ wind sq.edges ⟨1, 1⟩ = (if sq.ccw then 1 else -1) := by decide +kernel

end ShapeVerif.C02
