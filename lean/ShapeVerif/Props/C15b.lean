/-
C15b — splitting retraces the curve, for EVERY degree and EVERY list of parameters.

C15.lean proves split-invariance of area / moments / winding for straight pieces and the retrace identity for degrees
1–3.  Here: `segment.split(nodes)` (`splitMany`: successive de Casteljau cuts at the re-scaled parameters
`(n − prev)/(1 − prev)`, exactly as `BezierCurve.split` / pynurbs knot insertion does) produces pieces that are
reparametrisations of the ORIGINAL segment over the consecutive parameter intervals [0,n₁], [n₁,n₂], …, [n_k,1]:
`piece_j(u) = seg(n_j + u·(n_{j+1} − n_j))` for every rational u — all degrees, all node lists avoiding 1.
Hence no point of the curve is moved, consecutive pieces meet exactly at `seg(n_j)`, and the pieces keep the degree;
`splitMany_integral_all`: the pieces together have exactly the boundary integrals (area, all moments) of the segment.
-/
import ShapeVerif.Props.C15
import ShapeVerif.Props.C18b
import ShapeVerif.Proofs.SplitIntGen

namespace ShapeVerif.C15
open ShapeVerif

/-- `piece` is the restriction of `orig` to the parameter interval [lo, hi] -/
def Retraces (orig piece : Seg) (lo hi : Rat) : Prop := ∀ u, evalSeg piece u = evalSeg orig (lo + u * (hi - lo))

/-- the parameter intervals of the pieces of `split(nodes)` that starts at `prev` -/
def intervals (prev : Rat) : List Rat → List (Rat × Rat)
  | [] => [(prev, 1)]
  | n :: rest => (prev, n) :: intervals n rest

/-- one cut: if `r` is `orig` on [prev, 1], cutting `r` at the re-scaled parameter gives `orig` on [prev, n] and on [n, 1] -/
theorem cut_retraces (orig r : Seg) (hr : r ≠ []) (prev n : Rat) (hp : prev ≠ 1) (h : Retraces orig r prev 1) :
    Retraces orig (splitAt r ((n - prev) / (1 - prev))).1 prev n ∧
    Retraces orig (splitAt r ((n - prev) / (1 - prev))).2 n 1 := by
  have hd : (1 : Rat) - prev ≠ 0 := sub_ne_zero.mpr (Ne.symm hp)
  constructor
  · intro u
    rw [C18.split_left_all r hr, h]
    congr 1
    field_simp
  · intro u
    rw [C18.split_right_all r hr, h]
    congr 1
    field_simp
    ring

/-- every piece of `split(nodes)` retraces the original segment on its own parameter interval -/
theorem splitMany_retraces (orig : Seg) (nodes : List Rat) (r : Seg) (hr : r ≠ []) (prev : Rat) (hp : prev ≠ 1)
    (hn : ∀ n ∈ nodes, n ≠ 1) (h : Retraces orig r prev 1) :
    List.Forall₂ (fun piece iv => Retraces orig piece iv.1 iv.2) (splitMany r prev nodes) (intervals prev nodes) := by
  induction nodes generalizing r prev with
  | nil => exact List.Forall₂.cons h List.Forall₂.nil
  | cons n rest ih =>
    obtain ⟨hl, hrr⟩ := cut_retraces orig r hr prev n hp h
    simp only [splitMany, intervals]
    refine List.Forall₂.cons hl (ih _ ?_ n (hn n (by simp)) (fun m hm => hn m (by simp [hm])) hrr)
    intro he
    have := (splitAt_lengths r ((n - prev) / (1 - prev))).2
    rw [he] at this
    exact hr (List.length_eq_zero_iff.mp this.symm)

/-- `segment.split(nodes)`: the pieces are the original curve on [0,n₁], [n₁,n₂], …, [n_k,1] — every degree -/
theorem split_retraces_all (s : Seg) (hs : s ≠ []) (nodes : List Rat) (hn : ∀ n ∈ nodes, n ≠ 1) :
    List.Forall₂ (fun piece iv => Retraces s piece iv.1 iv.2) (splitMany s 0 nodes) (intervals 0 nodes) :=
  splitMany_retraces s nodes s hs 0 (by norm_num) hn (fun u => by ring_nf)

/-- the number of pieces is the number of nodes + 1, and every piece keeps the number of control points -/
theorem splitMany_shape (r : Seg) (prev : Rat) (nodes : List Rat) :
    (splitMany r prev nodes).length = nodes.length + 1 ∧ ∀ p ∈ splitMany r prev nodes, p.length = r.length := by
  induction nodes generalizing r prev with
  | nil => simp [splitMany]
  | cons n rest ih =>
    obtain ⟨h1, h2⟩ := splitAt_lengths r ((n - prev) / (1 - prev))
    obtain ⟨l, hmem⟩ := ih (splitAt r ((n - prev) / (1 - prev))).2 n
    simp only [splitMany, List.length_cons, List.mem_cons]
    refine ⟨by omega, ?_⟩
    rintro p (rfl | hp)
    · exact h1
    · rw [hmem p hp, h2]

/-- in particular a piece evaluated at 0 / 1 is the original curve at the interval ends: consecutive pieces meet at seg(n_j) -/
theorem retraces_ends (orig piece : Seg) (lo hi : Rat) (h : Retraces orig piece lo hi) :
    evalSeg piece 0 = evalSeg orig lo ∧ evalSeg piece 1 = evalSeg orig hi := by
  constructor
  · rw [h 0]; congr 1; ring
  · rw [h 1]; congr 1; ring

/-! ### … and no boundary integral changes: area and every moment of a curved piece are those of its pieces (every degree, all exponents) -/

/-- one cut: ∫ x^a y^b dy over the two halves adds up to the integral over the piece — any degree, any cut parameter, all exponents
(Proofs/SplitIntGen.lean: the halves are the piece composed with t ↦ t₀t and t ↦ t₀ + (1−t₀)t; fundamental theorem on ℚ[X]) -/
theorem split_preserves_integral_all (s : Seg) (hs : 2 ≤ s.length) (t0 : Rat) (a b : Nat) :
    exactVertical (splitAt s t0).1 a b + exactVertical (splitAt s t0).2 a b = exactVertical s a b :=
  exactVertical_split s hs t0 a b

/-- `segment.split(nodes)`: the pieces together have the boundary integrals of the segment, for every list of parameters -/
theorem splitMany_integral_all (nodes : List Rat) (r : Seg) (hr : 2 ≤ r.length) (prev : Rat) (a b : Nat) :
    jordanExactVertical (splitMany r prev nodes) a b = exactVertical r a b := by
  induction nodes generalizing r prev with
  | nil => simp [splitMany, jordanExactVertical]
  | cons n rest ih =>
    have h2 := (splitAt_lengths r ((n - prev) / (1 - prev))).2
    simp only [splitMany, jordanExactVertical, List.map_cons, List.sum_cons]
    have := ih (splitAt r ((n - prev) / (1 - prev))).2 (by omega) n
    simp only [jordanExactVertical] at this
    rw [this]
    exact exactVertical_split r hr _ a b

/-- in particular the signed area ∫ x dy and every moment contribution of a curved piece survive any split exactly -/
theorem split_preserves_area_all (s : Seg) (hs : 2 ≤ s.length) (nodes : List Rat) :
    jordanExactVertical (splitMany s 0 nodes) 1 0 = exactVertical s 1 0 := splitMany_integral_all nodes s hs 0 1 0

/-! non-vacuity: a cubic cut at 1/4 and 2/3 — three pieces, the middle one is the curve on [1/4, 2/3] -/
example : intervals 0 [1/4, 2/3] = [(0, 1/4), (1/4, 2/3), (2/3, 1)] := by decide +kernel
example : ((splitMany [⟨0,0⟩, ⟨1,2⟩, ⟨3,0⟩, ⟨4,1⟩] 0 [1/4, 2/3]).map fun p => evalSeg p (1/2)) =
    [1/8, 11/24, 5/6].map (evalSeg [⟨0,0⟩, ⟨1,2⟩, ⟨3,0⟩, ⟨4,1⟩]) := by decide +kernel

end ShapeVerif.C15
