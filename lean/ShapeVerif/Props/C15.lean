/-
C15 — splitting a straight segment (`BezierCurve.split`, `JordanCurve.split` on polygons) changes
neither the integrals (area, first and second moments) nor the crossing number, hence not membership.
Only property theorems here; helper lemmas are in Proofs/Geom.lean.
Quantifiers: ALL rational end points, ALL cut parameters (in [0,1] for the crossing number, where the
cut point has to lie on the segment), ALL query points, ALL polygons and ALL node lists.
-/
import ShapeVerif.Proofs.Geom

namespace ShapeVerif.C15
open ShapeVerif ShapeVerif.Geom

/-! ### one cut: the integrals `∫ x^a y^b dy` add up, for every `t` (even outside [0,1]) -/
theorem split_area (p q : Pt) (t : Rat) :
    exactVertical [p, lerp p q t] 1 0 + exactVertical [lerp p q t, q] 1 0 = exactVertical [p, q] 1 0 :=
  ev_split_10 p q t
theorem split_moment_x (p q : Pt) (t : Rat) :
    exactVertical [p, lerp p q t] 2 0 + exactVertical [lerp p q t, q] 2 0 = exactVertical [p, q] 2 0 :=
  ev_split_20 p q t
theorem split_moment_y (p q : Pt) (t : Rat) :
    exactVertical [p, lerp p q t] 1 1 + exactVertical [lerp p q t, q] 1 1 = exactVertical [p, q] 1 1 :=
  ev_split_11 p q t
theorem split_moment_xx (p q : Pt) (t : Rat) :
    exactVertical [p, lerp p q t] 3 0 + exactVertical [lerp p q t, q] 3 0 = exactVertical [p, q] 3 0 :=
  ev_split_30 p q t
theorem split_moment_xy (p q : Pt) (t : Rat) :
    exactVertical [p, lerp p q t] 2 1 + exactVertical [lerp p q t, q] 2 1 = exactVertical [p, q] 2 1 :=
  ev_split_21 p q t
theorem split_moment_yy (p q : Pt) (t : Rat) :
    exactVertical [p, lerp p q t] 1 2 + exactVertical [lerp p q t, q] 1 2 = exactVertical [p, q] 1 2 :=
  ev_split_12 p q t

/-- what the code computes for one node is exactly these two pieces -/
theorem splitSeg_one (p q : Pt) (t : Rat) : splitSeg [p, q] [t] = [[p, lerp p q t], [lerp p q t, q]] :=
  splitSeg_line p q t

/-! ### one cut: the ray-crossing contributions add up, for EVERY query point `r`
(the half-open abscissa ranges of the pieces partition the range of the edge; vertical edges give 0) -/
theorem split_crossing (p q r : Pt) (t : Rat) (h0 : 0 ≤ t) (h1 : t ≤ 1) :
    (if (⟨p, lerp p q t⟩ : Edge).below r then (⟨p, lerp p q t⟩ : Edge).dir else 0)
      + (if (⟨lerp p q t, q⟩ : Edge).below r then (⟨lerp p q t, q⟩ : Edge).dir else 0)
      = (if (⟨p, q⟩ : Edge).below r then (⟨p, q⟩ : Edge).dir else 0) :=
  contrib_split_closed p q r t h0 h1

/-- inserting a vertex on an edge of any edge list keeps the crossing number of every point -/
theorem wind_insert_vertex (l1 l2 : List Edge) (p q r : Pt) (t : Rat) (h0 : 0 ≤ t) (h1 : t ≤ 1) :
    wind (l1 ++ [⟨p, lerp p q t⟩, ⟨lerp p q t, q⟩] ++ l2) r = wind (l1 ++ [⟨p, q⟩] ++ l2) r :=
  wind_insert l1 l2 p q r t h0 h1

/-! ### `segment.split(nodes)` with any number of nodes (sorted and de-duplicated by the code) -/
theorem splitSeg_integral (p q : Pt) (nodes : List Rat) (a b : Nat)
    (hab : (a, b) ∈ [(0,0), (1,0), (2,0), (1,1), (3,0), (2,1), (1,2)]) :
    jordanExactVertical (splitSeg [p, q] nodes) a b = exactVertical [p, q] a b := by
  unfold jordanExactVertical
  refine splitSeg_line_sum (fun s => exactVertical s a b) (fun _ => True) ?_ p q nodes (relOK_true _ _)
  intro p q t _
  simp only [List.mem_cons, Prod.mk.injEq, List.not_mem_nil, or_false] at hab
  rcases hab with ⟨rfl, rfl⟩ | ⟨rfl, rfl⟩ | ⟨rfl, rfl⟩ | ⟨rfl, rfl⟩ | ⟨rfl, rfl⟩ | ⟨rfl, rfl⟩ | ⟨rfl, rfl⟩
  · exact ev_split_00 p q t
  · exact ev_split_10 p q t
  · exact ev_split_20 p q t
  · exact ev_split_11 p q t
  · exact ev_split_30 p q t
  · exact ev_split_21 p q t
  · exact ev_split_12 p q t

theorem splitSeg_wind (p q r : Pt) (nodes : List Rat) (h : ∀ n ∈ nodes, 0 ≤ n ∧ n ≤ 1) :
    wind ((splitSeg [p, q] nodes).map Seg.chord) r = wind [⟨p, q⟩] r := by
  have := splitSeg_line_sum (fun s => contrib (Seg.chord s) r) (fun t => 0 ≤ t ∧ t ≤ 1)
    (fun p q t ht => contrib_split_closed p q r t ht.1 ht.2) p q nodes
    (nodesOK_rel _ _ (nodesOK_dedup_sort nodes h))
  simpa [wind_eq, List.map_map, Function.comp_def, Seg.chord] using this

/-! ### `JordanCurve.split(indexs, nodes)` on a polygon -/
theorem jordanSplit_integral (j : Jordan) (hj : j.isPolygon = true) (pairs : List (Nat × Rat)) (a b : Nat)
    (hab : (a, b) ∈ [(0,0), (1,0), (2,0), (1,1), (3,0), (2,1), (1,2)]) :
    jordanExactVertical (Jordan.split j pairs) a b = jordanExactVertical j a b :=
  jordanSplit_sum (fun s => exactVertical s a b) pairs
    (fun p q i => splitSeg_integral p q (nodesFor pairs i) a b hab) j hj

theorem jordanSplit_area (j : Jordan) (hj : j.isPolygon = true) (pairs : List (Nat × Rat)) :
    Jordan.area (Jordan.split j pairs) = Jordan.area j := jordanSplit_integral j hj pairs 1 0 (by simp)

theorem jordanSplit_moment (j : Jordan) (hj : j.isPolygon = true) (pairs : List (Nat × Rat)) (a b : Nat)
    (hab : a + b ≤ 2) : Jordan.moment (Jordan.split j pairs) a b = Jordan.moment j a b := by
  unfold Jordan.moment
  rw [jordanSplit_integral j hj pairs (a + 1) b]
  have : (a = 0 ∧ b = 0) ∨ (a = 0 ∧ b = 1) ∨ (a = 0 ∧ b = 2) ∨ (a = 1 ∧ b = 0) ∨ (a = 1 ∧ b = 1)
      ∨ (a = 2 ∧ b = 0) := by omega
  rcases this with ⟨rfl, rfl⟩ | ⟨rfl, rfl⟩ | ⟨rfl, rfl⟩ | ⟨rfl, rfl⟩ | ⟨rfl, rfl⟩ | ⟨rfl, rfl⟩ <;> simp

theorem jordanSplit_wind (j : Jordan) (hj : j.isPolygon = true) (pairs : List (Nat × Rat))
    (h : ∀ it ∈ pairs, 0 ≤ it.2 ∧ it.2 ≤ 1) (r : Pt) :
    wind (Jordan.split j pairs).edges r = wind j.edges r := by
  have := jordanSplit_sum (fun s => contrib (Seg.chord s) r) pairs (fun p q i => by
    have hn : ∀ n ∈ nodesFor pairs i, 0 ≤ n ∧ n ≤ 1 := fun n hn => h (i, n) (nodesFor_mem pairs i n hn).1
    have := splitSeg_wind p q r (nodesFor pairs i) hn
    simpa [wind_eq, List.map_map, Function.comp_def, Seg.chord] using this) j hj
  simpa [wind_eq, Jordan.edges, List.map_map, Function.comp_def] using this

/-- split does not change membership -/
theorem jordanSplit_memW (j : Jordan) (hj : j.isPolygon = true) (pairs : List (Nat × Rat))
    (h : ∀ it ∈ pairs, 0 ≤ it.2 ∧ it.2 ≤ 1) (r : Pt) :
    memW (Jordan.split j pairs) r = memW j r := by
  unfold memW Jordan.ccw
  rw [jordanSplit_area j hj pairs, jordanSplit_wind j hj pairs h r]

/-! ### the node filter of `split` -/
/-- parameters of one segment closer than `1e-6` are merged: what remains is `1e-6`-separated … -/
theorem dedupNodes_separated (l : List Rat) : Spaced (dedupNodes l) := dedupNodes_spaced l
/-- … and is a sublist of the input (nothing invented, order kept) -/
theorem dedupNodes_sub (l : List Rat) : (dedupNodes l).Sublist l := dedupNodes_sublist l
theorem sortRat_perm_mem (l : List Rat) (y : Rat) : y ∈ sortRat l ↔ y ∈ l := sortRat_mem l y
theorem sortRat_is_sorted (l : List Rat) : (sortRat l).Pairwise (· ≤ ·) := sortRat_sorted l

/-! ### non-vacuity -/
example : splitSeg [⟨0,0⟩, ⟨4,2⟩] [3/4, 1/4] = [[⟨0,0⟩, ⟨1,1/2⟩], [⟨1,1/2⟩, ⟨3,3/2⟩], [⟨3,3/2⟩, ⟨4,2⟩]] := by
  decide +kernel
example : Jordan.area (Jordan.split (Jordan.fromVertices [⟨0,0⟩, ⟨4,0⟩, ⟨0,3⟩]) [(1, 1/3), (0, 1/2), (1, 2/3)]) = 6 := by
  decide +kernel
example : (Jordan.split (Jordan.fromVertices [⟨0,0⟩, ⟨4,0⟩, ⟨0,3⟩]) [(1, 1/3), (0, 1/2), (1, 2/3)]).length = 6 := by
  decide +kernel
example : memW (Jordan.split (Jordan.fromVertices [⟨0,0⟩, ⟨4,0⟩, ⟨0,3⟩]) [(1, 1/3), (0, 1/2)]) ⟨2,1⟩ = true := by
  decide +kernel

end ShapeVerif.C15
