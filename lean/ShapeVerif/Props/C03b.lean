/-
C03b — the containment DISPATCH of shape.py is sound relative to its geometric leaf test.

`B in A` for defined shapes goes through `DefinedShape.contains_shape` and the three `_contains_shape` methods, which
combine `SimpleShape.__contains_simple` (the only place where geometry is tested) by loops over sub-shapes and, for
`Connected in Simple`, over complements.  `Gen/Contain.lean` is REGENERATED from the source on every run: the table
`Gen.containRule` says which loop is run for which pair of kinds.  `Model/Contain.lean` interprets such a table.

PROVED for the regenerated table, for ALL shapes of all kinds, all nesting depths (fuel), and EVERY leaf test:
 * `dispatch_sound_at` — at any point where (i) the leaf test is sound and (ii) complementing a curve complements its region,
   `A.contains_shape(B) = True` implies `B ⊆ A` there.  This is the direction C01 relies on (a wrong "True" makes `A | B`
   return a copy of A): no combination step of the dispatch can turn sound leaf answers into a wrong "True".
 * `dispatch_sound` — the same for the model's winding-number regions `memW`, at every point where each boundary curve
   involved has the winding range of a simple closed curve (0 or ±1 by orientation — the Jordan curve theorem, hypothesis as
   in C02) — with (ii) PROVED from `wind_invert` / `area_invert` for polygons.
 * `dispatch_empty_whole` — Empty is in every defined shape, Whole in none (regenerated head of `contains_shape`).
 * `dispatch_incomplete_by_design` — the converse fails: `Connected in Simple` tests `~A ⊆ ~B_i` for SOME i, which is sufficient
   but not necessary (C03.all_sub_not_necessary); the code then falls through to the boundary recombination, which is right.
-/
import ShapeVerif.Props.C03
import ShapeVerif.Gen.Contain
import ShapeVerif.Proofs.Quadrature

namespace ShapeVerif.C03
open ShapeVerif

/-- membership of one fixed point, given the membership `reg J` of that point in the region of every simple curve -/
def memAt (reg : Jordan → Bool) : Shape → Bool
  | .empty => false
  | .whole => true
  | .simple j => reg j
  | .connected js => js.all reg
  | .disjoint cs => cs.any fun c => c.all reg

theorem memAt_ofComp (reg : Jordan → Bool) (c : List Jordan) : memAt reg (Shape.ofComp c) = c.all reg := by
  unfold Shape.ofComp
  split
  · simp [memAt]
  · rfl

theorem jordans_ofComp (c : List Jordan) : (Shape.ofComp c).jordans = c := by
  unfold Shape.ofComp
  split <;> rfl

/-- soundness of the regenerated dispatch at one point; `P` singles out the curves for which complementing the curve
complements the region at this point (only the curves of the two operands are ever asked) -/
theorem dispatch_sound_at (reg : Jordan → Bool) (leaf : Jordan → Jordan → Bool) (P : Jordan → Prop)
    (hleaf : ∀ a b, leaf a b = true → reg b = true → reg a = true)
    (hinv : ∀ j, P j → reg j.invert = !reg j) :
    ∀ (fuel : Nat) (A B : Shape), (∀ j ∈ A.jordans, P j) → (∀ j ∈ B.jordans, P j) →
      containsShape Gen.containRule leaf fuel A B = true → memAt reg B = true → memAt reg A = true := by
  intro fuel
  induction fuel with
  | zero => intro A B _ _ h; simp [containsShape] at h
  | succ n ih =>
    intro A B hPA hPB h hB
    cases B with
    | empty => simp [memAt] at hB
    | whole => simp [containsShape] at h
    | simple b =>
      cases A with
      | empty => simp [containsShape, Shape.ckind] at h
      | whole => rfl
      | simple a =>
        simp only [containsShape, Shape.ckind, Gen.containRule] at h
        exact hleaf a b h hB
      | connected js =>
        simp only [containsShape, Shape.ckind, Gen.containRule, Shape.subs, List.all_map, List.all_eq_true,
          Function.comp] at h
        simp only [memAt, List.all_eq_true]
        intro j hj
        exact ih (.simple j) (.simple b) (fun k hk => hPA k (by simp [Shape.jordans] at hk ⊢; exact hk ▸ hj)) hPB (h j hj) hB
      | disjoint cs =>
        simp only [containsShape, Shape.ckind, Gen.containRule, Shape.subs, List.any_map, List.any_eq_true,
          Function.comp] at h
        obtain ⟨c, hc, hcc⟩ := h
        simp only [memAt, List.any_eq_true]
        refine ⟨c, hc, ?_⟩
        rw [← memAt_ofComp]
        exact ih _ _ (fun k hk => hPA k (by rw [jordans_ofComp] at hk; simp only [Shape.jordans, List.mem_flatten]; exact ⟨c, hc, hk⟩)) hPB hcc hB
    | connected bs =>
      cases A with
      | empty => simp [containsShape, Shape.ckind] at h
      | whole => rfl
      | simple a =>
        simp only [containsShape, Shape.ckind, Gen.containRule, Shape.subs, List.any_map, List.any_eq_true,
          Function.comp] at h
        obtain ⟨b, hb, hbb⟩ := h
        -- ~A ⊆ ~b at this point, and the point is in b (it is in every member of B)
        have hpb : reg b = true := by
          simp only [memAt, List.all_eq_true] at hB; exact hB b hb
        have hPa : P a := hPA a (by simp [Shape.jordans])
        have hPb : P b := hPB b (by simpa [Shape.jordans] using hb)
        cases n with
        | zero => simp [containsShape] at hbb
        | succ m =>
          simp only [containsShape, Shape.ckind, Gen.containRule] at hbb
          by_contra hna
          have hna' : reg a = false := by simpa [memAt] using hna
          have := hleaf b.invert a.invert hbb (by rw [hinv a hPa, hna']; rfl)
          rw [hinv b hPb, hpb] at this
          exact Bool.noConfusion this
      | connected js =>
        simp only [containsShape, Shape.ckind, Gen.containRule, Shape.subs, List.all_map, List.all_eq_true,
          Function.comp] at h
        simp only [memAt, List.all_eq_true]
        intro j hj
        exact ih (.simple j) (.connected bs) (fun k hk => hPA k (by simp [Shape.jordans] at hk ⊢; exact hk ▸ hj)) hPB (h j hj) hB
      | disjoint cs =>
        simp only [containsShape, Shape.ckind, Gen.containRule, Shape.subs, List.any_map, List.any_eq_true,
          Function.comp] at h
        obtain ⟨c, hc, hcc⟩ := h
        simp only [memAt, List.any_eq_true]
        refine ⟨c, hc, ?_⟩
        rw [← memAt_ofComp]
        exact ih _ _ (fun k hk => hPA k (by rw [jordans_ofComp] at hk; simp only [Shape.jordans, List.mem_flatten]; exact ⟨c, hc, hk⟩)) hPB hcc hB
    | disjoint ds =>
      -- the point lies in some component d of B; every rule for a disjoint operand descends correctly
      have hPd : ∀ d ∈ ds, ∀ k ∈ (Shape.ofComp d).jordans, P k := fun d hd k hk =>
        hPB k (by rw [jordans_ofComp] at hk; simp only [Shape.jordans, List.mem_flatten]; exact ⟨d, hd, hk⟩)
      cases A with
      | empty => simp [containsShape, Shape.ckind] at h
      | whole => rfl
      | simple a =>
        simp only [containsShape, Shape.ckind, Gen.containRule, Shape.subs, List.all_map, List.all_eq_true,
          Function.comp] at h
        simp only [memAt, List.any_eq_true] at hB
        obtain ⟨d, hd, hdd⟩ := hB
        exact ih (.simple a) (Shape.ofComp d) hPA (hPd d hd) (h d hd) (by rw [memAt_ofComp]; exact hdd)
      | connected js =>
        simp only [containsShape, Shape.ckind, Gen.containRule, Shape.subs, List.all_map, List.all_eq_true,
          Function.comp] at h
        simp only [memAt, List.all_eq_true]
        intro j hj
        exact ih (.simple j) (.disjoint ds) (fun k hk => hPA k (by simp [Shape.jordans] at hk ⊢; exact hk ▸ hj)) hPB (h j hj) hB
      | disjoint cs =>
        simp only [containsShape, Shape.ckind, Gen.containRule, Shape.subs, List.all_map, List.all_eq_true,
          Function.comp] at h
        have hB' := hB
        simp only [memAt, List.any_eq_true] at hB'
        obtain ⟨d, hd, hdd⟩ := hB'
        exact ih (.disjoint cs) (Shape.ofComp d) hPA (hPd d hd) (h d hd) (by rw [memAt_ofComp]; exact hdd)

/-- the model's winding-number membership is `memAt` of the per-curve memberships -/
theorem memW_eq_memAt (S : Shape) (r : Pt) : S.memW r = memAt (fun j => ShapeVerif.memW j r) S := by
  cases S <;> rfl

/-- a curve has the winding range of a simple closed curve at `r`: 0 outside, +1 / −1 inside by orientation, and a non-zero
area (what the Jordan curve theorem gives for simple closed polygons off their boundary) -/
def JordanAt (j : Jordan) (r : Pt) : Prop :=
  j.isPolygon = true ∧ j.area ≠ 0 ∧ (wind j.edges r = 0 ∨ wind j.edges r = (if j.ccw then 1 else -1))

/-- complementing such a curve complements its region at `r` (proved, not assumed: `wind_invert`, `area_invert`) -/
theorem memW_invert_of_jordanAt (j : Jordan) (r : Pt) (h : JordanAt j r) :
    ShapeVerif.memW j.invert r = !ShapeVerif.memW j r := by
  obtain ⟨hp, ha, hw⟩ := h
  have hdeg : ∀ s ∈ j, DegLe3 s := fun s hs => Or.inl (by
    have := List.all_eq_true.mp hp s hs; simpa using this)
  have hai : Jordan.area j.invert = - Jordan.area j := area_invert j hdeg
  have hwi : wind j.invert.edges r = - wind j.edges r := Alg.wind_invert j r
  unfold ShapeVerif.memW Jordan.ccw at *
  rw [hai, hwi]
  by_cases hpos : 0 < Jordan.area j
  · have hneg : ¬ (0 < -Jordan.area j) := by linarith
    simp only [hpos, hneg, decide_true, decide_false, if_true] at hw ⊢
    rcases hw with h0 | h1
    · simp [h0]
    · simp [h1]
  · have hlt : Jordan.area j < 0 := lt_of_le_of_ne (not_lt.mp hpos) ha
    have hneg : 0 < -Jordan.area j := by linarith
    simp only [hpos, hneg, decide_true, decide_false] at hw ⊢
    rcases hw with h0 | h1
    · simp [h0]
    · simp [h1]

/-- soundness of the regenerated dispatch for the model's regions: wherever every boundary curve of the two operands has the
winding range of a simple closed curve and the leaf test is sound, a `True` of `A.contains_shape(B)` means B ⊆ A there -/
theorem dispatch_sound (leaf : Jordan → Jordan → Bool) (r : Pt)
    (hleaf : ∀ a b, leaf a b = true → ShapeVerif.memW b r = true → ShapeVerif.memW a r = true)
    (fuel : Nat) (A B : Shape) (hA : ∀ j ∈ A.jordans, JordanAt j r) (hB : ∀ j ∈ B.jordans, JordanAt j r)
    (h : containsShape Gen.containRule leaf fuel A B = true) (hr : B.memW r = true) : A.memW r = true := by
  rw [memW_eq_memAt] at hr ⊢
  exact dispatch_sound_at (fun j => ShapeVerif.memW j r) leaf (fun j => JordanAt j r) hleaf
    (fun j hj => memW_invert_of_jordanAt j r hj) fuel A B hA hB h hr

/-- Empty is contained in every shape and Whole in no defined shape: the regenerated head of `contains_shape` -/
theorem dispatch_empty_whole :
    Gen.containsEmptyAnswer = true ∧ Gen.containsWholeAnswer = false ∧
    (∀ leaf fuel A, containsShape Gen.containRule leaf (fuel + 1) A .empty = true) ∧
    (∀ leaf fuel A, containsShape Gen.containRule leaf fuel A .whole = false) := by
  refine ⟨rfl, rfl, fun _ _ _ => by simp [containsShape], fun _ fuel _ => ?_⟩
  cases fuel <;> simp [containsShape]

/-- the regenerated table: which loop is run for which pair of kinds (a change of the source shows up here first) -/
theorem dispatch_table :
    Gen.containRule .simple .simple = some .leaf ∧ Gen.containRule .simple .connected = some .anyComplOther ∧
    Gen.containRule .simple .disjoint = some .allOther ∧
    (∀ k, Gen.containRule .connected k = some .allSelf) ∧
    Gen.containRule .disjoint .simple = some .anySelf ∧ Gen.containRule .disjoint .connected = some .anySelf ∧
    Gen.containRule .disjoint .disjoint = some .allOther := by
  refine ⟨rfl, rfl, rfl, fun k => by cases k <;> rfl, rfl, rfl, rfl⟩

/-! ### the leaf test `SimpleShape.__contains_simple` as a decision over its geometric tests (regenerated: `Gen.containsSimpleTable`) -/

/-- what the decision SHOULD be, written from the geometry (A = `other`, B = `self`; is A ⊆ B?).  For simple closed curves that do not cross:
an unbounded region is never inside a bounded one; when the boxes are apart A ⊆ B iff A is bounded and B is the outside of a curve;
bounded-in-unbounded: the curve of A lies in B and the curve of B does not lie in A; same type: A cannot be larger, its curve must lie in B,
and for two unbounded regions the question is the one for the complements with the roles exchanged -/
def containsSimpleSpec (aPos aNeg bPos bNeg boxApart jaIn jbIn aGtB recC : Bool) : Bool :=
  if aNeg && bPos then false
  else if boxApart then aPos && bNeg
  else if aPos && bNeg then jaIn && !jbIn
  else if aGtB || !jaIn then false
  else if aPos then true
  else recC

/-- the table regenerated from the source IS the specification, on all 512 combinations of answers of its tests (any rewrite of the source that
is equal as a boolean function re-proves) -/
theorem source_contains_simple_is_spec : ∀ aPos aNeg bPos bNeg boxApart jaIn jbIn aGtB recC : Bool,
    Gen.containsSimpleTable aPos aNeg bPos bNeg boxApart jaIn jbIn aGtB recC
      = containsSimpleSpec aPos aNeg bPos bNeg boxApart jaIn jbIn aGtB recC := by decide

/-- consequences, for every combination of the remaining tests: an unbounded shape is never reported inside a bounded one … -/
theorem unbounded_never_in_bounded (boxApart jaIn jbIn aGtB recC : Bool) :
    Gen.containsSimpleTable false true true false boxApart jaIn jbIn aGtB recC = false := by
  revert boxApart jaIn jbIn aGtB recC; decide

/-- … a bounded shape whose curve does not lie in the (bounded or unbounded) candidate container is never reported inside it (boxes meeting) … -/
theorem curve_outside_means_not_contained (aPos aNeg bPos bNeg jbIn aGtB recC : Bool) (h : (aNeg && bPos) = false) :
    Gen.containsSimpleTable aPos aNeg bPos bNeg false false jbIn aGtB recC = false := by
  revert h; revert aPos aNeg bPos bNeg jbIn aGtB recC; decide

/-- … a bounded shape of larger area is never reported inside a bounded one … -/
theorem larger_never_in_smaller (boxApart jaIn jbIn recC : Bool) :
    Gen.containsSimpleTable true false true false boxApart jaIn jbIn true recC = false := by
  revert boxApart jaIn jbIn recC; decide

/-- … and for two unbounded shapes (boxes meeting, A's curve in B, A not larger) the answer is exactly the answer for the complements -/
theorem both_unbounded_is_complement_question (jbIn recC : Bool) :
    Gen.containsSimpleTable false true false true false true jbIn false recC = recC := by
  revert jbIn recC; decide

/-! ### non-vacuity: the interpreted dispatch on concrete polygons, leaf test = the verified region checker -/
def rsLeaf (a b : Jordan) : Bool := regionSubset (.simple b) (.simple a)
def sqr (x0 y0 x1 y1 : Rat) : Jordan := Jordan.fromVertices [⟨x0, y0⟩, ⟨x1, y0⟩, ⟨x1, y1⟩, ⟨x0, y1⟩]
def ring : Shape := .connected [sqr 0 0 4 4, (sqr 1 1 2 2).invert]
-- Simple in Simple (leaf), both directions
example : containsShape Gen.containRule rsLeaf 4 (.simple (sqr 0 0 4 4)) (.simple (sqr 1 1 2 2)) = true := by decide +kernel
example : containsShape Gen.containRule rsLeaf 4 (.simple (sqr 1 1 2 2)) (.simple (sqr 0 0 4 4)) = false := by decide +kernel
-- Simple in Connected (all sub-shapes must contain it): a square beside the hole is in the ring, the hole's square is not
example : containsShape Gen.containRule rsLeaf 4 ring (.simple (sqr (5/2) (5/2) (7/2) (7/2))) = true := by decide +kernel
example : containsShape Gen.containRule rsLeaf 4 ring (.simple (sqr 1 1 2 2)) = false := by decide +kernel
-- Connected in Simple (complement rule): the ring is in the square that bounds it
example : containsShape Gen.containRule rsLeaf 4 (.simple (sqr 0 0 4 4)) ring = true := by decide +kernel
-- Disjoint in Simple (every component) and Simple in Disjoint (some component)
example : containsShape Gen.containRule rsLeaf 4 (.simple (sqr 0 0 4 4)) (.disjoint [[sqr 1 1 2 2], [sqr 3 3 (7/2) (7/2)]]) = true := by
  decide +kernel
example : containsShape Gen.containRule rsLeaf 4 (.disjoint [[sqr 1 1 2 2], [sqr 5 5 9 9]]) (.simple (sqr 6 6 7 7)) = true := by
  decide +kernel
-- the hypotheses of `dispatch_sound` are satisfiable: the winding range of a square at an interior point
example : JordanAt (sqr 0 0 4 4) ⟨1, 1⟩ := ⟨by decide +kernel, by decide +kernel, Or.inr (by decide +kernel)⟩

end ShapeVerif.C03
