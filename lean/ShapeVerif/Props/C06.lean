/-
C06 — results are canonical and well-formed; Empty and Whole are singletons with the right algebra.

FULL STATEMENT (informal, over the real code): every operator result is either the EmptyShape / WholeShape
singleton or a well-formed SimpleShape / ConnectedShape / DisjointShape (simple closed curves, one outer
boundary per connected component, holes inside the outer boundary and outside each other, ≥ 2 curves in a
ConnectedShape, ≥ 2 pairwise disjoint components in a DisjointShape); `S | ~S` is Whole, `S & ~S`, `S - S`,
`S ^ S` are Empty, `S ^ ~S` is Whole; the complement maps Empty ↔ Whole, Simple ↦ Simple,
Connected ↦ Disjoint-or-Simple…

What is PROVED here (all quantifiers unbounded):
 1. `singleton_results_table` — on the tables REGENERATED from shape.py: the fall-through of
    `__or__`/`__and__` with no curve left returns Whole / Empty; `~Empty = Whole`, `~Whole = Empty`; the
    short-cut returns `X | Whole = Whole`, `X & Empty = Empty`; and every operator of `EmptyShape` /
    `WholeShape` has the constant (or pass-through) truth value it must have, at every point.
 2. `singleton_laws` — through the translated method bodies, at every point (membership `s` of S there):
    S|~S ↦ true, S&~S ↦ false, S−S ↦ false, S^S ↦ false, S^~S ↦ true.  Hence by the certified checkers
    `empty_certified` / `whole_certified` (user-level restatements of `regionEmpty_sound`,
    `regionWhole_sound`) a result object of these expressions that is NOT the singleton is detected:
    its region must be empty / everything off its own edges.
 3. the MEANING of the executable well-formedness predicate `wfProblems` used by the harness on every
    result: `wf_simple`, `wf_connected`, `wf_disjoint`, `wf_disjoint_components_disjoint` (no point off
    the edges lies in two components), and of `simpleJ`: `simple_curve_facts`.

NOT proved / not modelled: that the code's results ARE well-formed for all inputs (checked per executed
result by the harness with `wfProblems`; the recombination algorithm FollowPath / `ShapeFromJordans` /
`DivideConnecteds` is Python-only, so the kind table of the complement — Simple ↦ Simple, Connected ↦
Disjoint or Simple — is not a Lean theorem); object identity of the singletons (`is`) is a harness check;
idempotence of `canonShape`.
-/
import ShapeVerif.Proofs.Algebra
import ShapeVerif.Gen.Dispatch

namespace ShapeVerif.C06
open ShapeVerif ShapeVerif.Alg

/-- pointwise value of operator `name` of a singleton class (`s` = membership of self: false for Empty,
true for Whole), through the translated bodies -/
def denOp (ops : List (String × Term)) (name : String) (s o : Bool) : Option Bool :=
  (ops.lookup name).bind fun t => Term.den Gen.baseMethods 16 t s o

/-- (1) the singleton table -/
theorem singleton_results_table :
    (Gen.definedOr.onEmpty = .whole ∧ Gen.definedAnd.onEmpty = .empty) ∧
    (Gen.emptyOps.lookup "invert" = some .whole ∧ Gen.wholeOps.lookup "invert" = some .empty) ∧
    (Gen.definedOr.guards.lookup (.isWhole .other) = some .whole ∧
     Gen.definedAnd.guards.lookup (.isEmpty .other) = some .empty) ∧
    (∀ o : Bool,
      denOp Gen.emptyOps "or" false o = some o ∧ denOp Gen.emptyOps "and" false o = some false ∧
      denOp Gen.emptyOps "sub" false o = some false ∧ denOp Gen.emptyOps "xor" false o = some o ∧
      denOp Gen.emptyOps "invert" false o = some true ∧ denOp Gen.emptyOps "neg" false o = some true ∧
      denOp Gen.emptyOps "add" false o = some o ∧ denOp Gen.emptyOps "mul" false o = some false) ∧
    (∀ o : Bool,
      denOp Gen.wholeOps "or" true o = some true ∧ denOp Gen.wholeOps "and" true o = some o ∧
      denOp Gen.wholeOps "sub" true o = some (!o) ∧ denOp Gen.wholeOps "xor" true o = some (!o) ∧
      denOp Gen.wholeOps "invert" true o = some false ∧ denOp Gen.wholeOps "neg" true o = some false ∧
      denOp Gen.wholeOps "add" true o = some true ∧ denOp Gen.wholeOps "mul" true o = some o) := by
  decide

/-- `Whole − Whole`, `Whole ^ Whole`, `Empty ^ Empty`, `Empty | Empty` are nowhere;
`Whole − Empty`, `Whole ^ Empty`, `Empty ^ Whole`, `Empty | Whole` are everywhere -/
theorem singleton_pairs :
    denOp Gen.wholeOps "sub" true true = some false ∧ denOp Gen.wholeOps "xor" true true = some false ∧
    denOp Gen.emptyOps "xor" false false = some false ∧ denOp Gen.emptyOps "or" false false = some false ∧
    denOp Gen.wholeOps "sub" true false = some true ∧ denOp Gen.wholeOps "xor" true false = some true ∧
    denOp Gen.emptyOps "xor" false true = some true ∧ denOp Gen.emptyOps "or" false true = some true := by
  decide

/-- (2) the singleton laws, at every point: `s` is the membership of S there (`other := S` for the binary ones) -/
theorem singleton_laws : ∀ s : Bool,
    Term.den Gen.baseMethods 16 (.or .self (.inv .self)) s s = some true ∧
    Term.den Gen.baseMethods 16 (.and .self (.inv .self)) s s = some false ∧
    Term.den Gen.baseMethods 16 (.sub .self .other) s s = some false ∧
    Term.den Gen.baseMethods 16 (.sub .self .self) s s = some false ∧
    Term.den Gen.baseMethods 16 (.xor .self .other) s s = some false ∧
    Term.den Gen.baseMethods 16 (.xor .self .self) s s = some false ∧
    Term.den Gen.baseMethods 16 (.xor .self (.inv .other)) s s = some true ∧
    Term.den Gen.baseMethods 16 (.inv (.inv .self)) s s = some s := by decide

/-- an object that the checker accepts as "empty" contains no point off its own edges -/
theorem empty_certified (A : Shape) (h : regionEmpty A = true) (r : Pt)
    (hx : r.x ∉ criticalXs A.edges) (hoff : ∀ e ∈ A.edges, e.onEdge r = false) : A.memW r = false :=
  regionEmpty_sound A h r hx (offLines_of_not_onEdge' _ r hoff)

/-- an object that the checker accepts as "whole" contains every point off its own edges -/
theorem whole_certified (A : Shape) (h : regionWhole A = true) (r : Pt)
    (hx : r.x ∉ criticalXs A.edges) (hoff : ∀ e ∈ A.edges, e.onEdge r = false) : A.memW r = true :=
  regionWhole_sound A h r hx (offLines_of_not_onEdge' _ r hoff)

/-- the singletons themselves are accepted, and have no curve -/
theorem singletons_canonical :
    regionEmpty .empty = true ∧ regionWhole .whole = true ∧ regionEmpty .whole = false ∧
    regionWhole .empty = false ∧ Shape.empty.jordans = [] ∧ Shape.whole.jordans = [] ∧
    wfProblems .empty = [] ∧ wfProblems .whole = [] ∧
    canonShape .empty = .empty ∧ canonShape .whole = .whole := by decide +kernel

/-! ### (3) what `wfProblems s = []` means -/

/-- a simple closed polygon: straight segments, at least 3 of them, consecutive edges chained
(cyclically), no zero-length edge, non-adjacent edges without common point -/
theorem simple_curve_facts (j : Jordan) (h : simpleJ j = true) :
    j.isPolygon = true ∧ 3 ≤ j.length ∧
    (∀ ef ∈ j.edges.zip (j.edges.tail ++ j.edges.take 1), ef.1.q = ef.2.p ∧ ef.1.p ≠ ef.1.q) ∧
    (∀ (i k : Nat) (e f : Edge), (e, i) ∈ j.edges.zipIdx → (f, k) ∈ j.edges.zipIdx →
        i + 1 < k → ¬ (i = 0 ∧ k = j.edges.length - 1) → edgesMeet e f = false) :=
  ⟨simpleJ_polygon h, simpleJ_length h, simpleJ_chain h,
    fun i k e f he hf hik hw => simpleJ_nonadjacent h i k e f he hf hik hw⟩

theorem wf_simple (j : Jordan) (h : wfProblems (.simple j) = []) : curveOK j = true := wfProblems_simple h

/-- ConnectedShape: ≥ 2 curves, all accepted boundary curves (`curveOK`: simple, or touching itself at isolated points without crossing), at most one counter-clockwise (outer) curve, every hole has
no piece outside or on the outer curve, distinct holes have no piece inside or on each other -/
theorem wf_connected (js : List Jordan) (h : wfProblems (.connected js) = []) :
    2 ≤ js.length ∧ (∀ j ∈ js, curveOK j = true) ∧ (js.filter Jordan.ccw).length ≤ 1 ∧
    (∀ o ∈ js.filter Jordan.ccw, ∀ hl ∈ js.filter (fun j => !j.ccw),
        (curveRel hl o).2.1 = 0 ∧ (curveRel hl o).2.2 = 0) ∧
    (∀ hi ∈ (js.filter (fun j => !j.ccw)).zipIdx, ∀ hk ∈ (js.filter (fun j => !j.ccw)).zipIdx,
        hi.2 ≠ hk.2 → (curveRel hi.1 hk.1).1 = 0 ∧ (curveRel hi.1 hk.1).2.2 = 0) :=
  wfConnected_nil (wfProblems_connected h)

/-- DisjointShape: ≥ 2 components, accepted as pairwise disjoint, none empty, one-curve components are
simple shapes, the others are well-formed connected shapes -/
theorem wf_disjoint (cs : List (List Jordan)) (h : wfProblems (.disjoint cs) = []) :
    2 ≤ cs.length ∧ componentsDisjoint cs = true ∧ (∀ c ∈ cs, c ≠ []) ∧
    (∀ c ∈ cs, ∀ j, c = [j] → curveOK j = true) ∧
    (∀ c ∈ cs, 2 ≤ c.length → wfProblems (.connected c) = []) := wfProblems_disjoint h

/-- … hence no point off the edges lies in two components (components at two different positions) -/
theorem wf_disjoint_components_disjoint (l1 l2 l3 : List (List Jordan)) (c1 c2 : List Jordan)
    (h : wfProblems (.disjoint (l1 ++ c1 :: l2 ++ c2 :: l3)) = []) (r : Pt)
    (hx : r.x ∉ criticalXs ((l1 ++ c1 :: l2 ++ c2 :: l3).flatten.flatMap Jordan.edges))
    (hoff : ∀ e ∈ (l1 ++ c1 :: l2 ++ c2 :: l3).flatten.flatMap Jordan.edges, e.onEdge r = false) :
    ¬ ((Shape.connected c1).memW r = true ∧ (Shape.connected c2).memW r = true) := by
  rintro ⟨h1, h2⟩
  have hd := (wfProblems_disjoint h).2.1
  have hlen := componentsDisjoint_sound _ hd r hx (offLines_of_not_onEdge' _ r hoff)
  change (c1.all fun j => memW j r) = true at h1
  change (c2.all fun j => memW j r) = true at h2
  simp only [List.filter_append, List.filter_cons, h1, h2, if_true, List.length_append, List.length_cons] at hlen
  omega

/-! ### non-vacuity: a ring and a two-component shape are well-formed; defects are reported -/
def outer : Jordan := Jordan.fromVertices [⟨0,0⟩, ⟨4,0⟩, ⟨4,4⟩, ⟨0,4⟩]
def hole : Jordan := Jordan.fromVertices [⟨1,1⟩, ⟨1,2⟩, ⟨2,2⟩, ⟨2,1⟩]
def far : Jordan := Jordan.fromVertices [⟨6,0⟩, ⟨7,0⟩, ⟨7,1⟩, ⟨6,1⟩]
example : wfProblems (.connected [outer, hole]) = [] := by decide +kernel
example : wfProblems (.disjoint [[outer, hole], [far]]) = [] := by decide +kernel
example : wfProblems (.simple outer) = [] ∧ wfProblems (.simple [[⟨0,0⟩, ⟨1,1⟩], [⟨1,1⟩, ⟨0,0⟩]]) ≠ [] := by
  decide +kernel
example : wfProblems (.disjoint [[outer], [hole.invert]]) = ["components-overlap"] := by decide +kernel
example : wfProblems (.connected [outer, far.invert]) = ["hole-outside-outer"] := by decide +kernel

end ShapeVerif.C06
