/-
C05b — the measure identities of C05 without their bounds: EVERY degree of the boundary pieces, ALL exponents.

C05.lean proves the certificate theorems (inclusion–exclusion, difference, complement) for pieces of degree ≤ 3 and
moments of order a + b ≤ 3, because reversal `∫ over the reversed piece = −∫` was only available from a quadrature
table.  With `exactVertical_reverse_all` (Proofs/ReverseGen.lean: general-degree reversal + the n-node rule's symmetry
for every n) the same theorems hold for all control polygons with ≥ 2 points and all a, b.
-/
import ShapeVerif.Props.C05
import ShapeVerif.Proofs.ReverseGen

namespace ShapeVerif.C05
open ShapeVerif ShapeVerif.Misc

/-- a piece traversed once in each direction contributes nothing, to every moment -/
theorem cancel_pair_all (s : Seg) (hs : 2 ≤ s.length) (a b : Nat) :
    exactVertical s a b + exactVertical s.reverse a b = 0 := by
  rw [exactVertical_reverse_all s hs a b]; ring

theorem jev_cancel_all (X : List Seg) (hX : ∀ s ∈ X, 2 ≤ s.length) (a b : Nat) :
    jordanExactVertical (X ++ X.map List.reverse) a b = 0 := by
  rw [jordanExactVertical_append]
  induction X with
  | nil => simp [jordanExactVertical]
  | cons s X ih =>
    have ih := ih (fun s hs => hX s (List.mem_cons_of_mem _ hs))
    simp only [jordanExactVertical, List.map_cons, List.sum_cons, List.map_map] at ih ⊢
    rw [exactVertical_reverse_all s (hX s (by simp)) a b]
    linarith

/-- general certificate, all degrees, all moments: the pieces of the results are the pieces `P` plus pieces `X` that
occur once in each direction -/
theorem moment_of_cert_cancel_all (Rs Ps : List Jordan) (X : List Seg) (hX : ∀ s ∈ X, 2 ≤ s.length)
    (cert : Rs.flatten.Perm (Ps.flatten ++ X ++ X.map List.reverse)) (a b : Nat) :
    shapeExactMoment Rs a b = shapeExactMoment Ps a b := by
  rw [shapeExactMoment_eq, shapeExactMoment_eq, jev_perm cert, List.append_assoc,
    jordanExactVertical_append, jev_cancel_all X hX (a + 1) b, add_zero]

/-- m(A | B) + m(A & B) = m(A) + m(B) for EVERY moment, whenever the boundary pieces of the two results are those of the
operands plus pieces traversed once in each direction -/
theorem incl_excl_of_cert_cancel_all (A B R1 R2 : Shape) (X : List Seg) (hX : ∀ s ∈ X, 2 ≤ s.length)
    (cert : (R1.jordans.flatten ++ R2.jordans.flatten).Perm
      (A.jordans.flatten ++ B.jordans.flatten ++ X ++ X.map List.reverse)) (a b : Nat) :
    R1.moment a b + R2.moment a b = A.moment a b + B.moment a b := by
  rw [moment_add, moment_add]
  apply moment_of_cert_cancel_all _ _ X hX _ a b
  simpa using cert

/-- m(A − B) + m(A & B) = m(A) for EVERY moment -/
theorem diff_of_cert_all (A R1 R2 : Shape) (X : List Seg) (hX : ∀ s ∈ X, 2 ≤ s.length)
    (cert : (R1.jordans.flatten ++ R2.jordans.flatten).Perm (A.jordans.flatten ++ X ++ X.map List.reverse))
    (a b : Nat) : R1.moment a b + R2.moment a b = A.moment a b := by
  rw [moment_add]
  apply moment_of_cert_cancel_all _ _ X hX _ a b
  simpa using cert

/-- m(~A) = −m(A): inverting every boundary curve negates EVERY moment, for boundary pieces of every degree -/
theorem moment_compl_all (js : List Jordan) (hjs : ∀ j ∈ js, ∀ s ∈ j, 2 ≤ s.length) (a b : Nat) :
    shapeExactMoment (js.map Jordan.invert) a b = - shapeExactMoment js a b := by
  induction js with
  | nil => simp [shapeExactMoment]
  | cons j js ih =>
    have e1 : List.map Jordan.invert (j :: js) = [j.invert] ++ js.map Jordan.invert := rfl
    have e2 : j :: js = [j] ++ js := rfl
    rw [e1, shapeExactMoment_append, ih (fun j' hj' => hjs j' (List.mem_cons_of_mem _ hj')),
      shapeExactMoment_singleton, moment_invert_all j (hjs j (by simp)) a b]
    conv_rhs => rw [e2, shapeExactMoment_append, shapeExactMoment_singleton]
    ring

theorem shape_moment_compl_all (A : Shape) (hA : ∀ j ∈ A.jordans, ∀ s ∈ j, 2 ≤ s.length) (a b : Nat) :
    shapeExactMoment A.invertCurves a b = - A.moment a b := moment_compl_all A.jordans hA a b

/-- in particular the signed area of an inverted curve of any degree -/
theorem area_invert_every_degree (j : Jordan) (hj : ∀ s ∈ j, 2 ≤ s.length) : Jordan.area j.invert = - Jordan.area j :=
  area_invert_all j hj

/-! non-vacuity: a closed curve with a quartic piece and its inverse -/
example : Jordan.area (Jordan.invert [[⟨0,0⟩, ⟨1,-1⟩, ⟨2,2⟩, ⟨3,-1⟩, ⟨4,0⟩], [⟨4,0⟩, ⟨2,5⟩, ⟨0,0⟩]])
    = - Jordan.area [[⟨0,0⟩, ⟨1,-1⟩, ⟨2,2⟩, ⟨3,-1⟩, ⟨4,0⟩], [⟨4,0⟩, ⟨2,5⟩, ⟨0,0⟩]] :=
  area_invert_all _ (by intro s hs; simp at hs; rcases hs with rfl | rfl <;> simp)

end ShapeVerif.C05
