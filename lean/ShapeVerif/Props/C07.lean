/-
C07 — `==` is equality of regions and an equivalence relation.

FULL STATEMENT (informal, over the real code): for all shapes A, B: `A == B` is True iff A and B are the
same point set; it is reflexive, symmetric and transitive, always returns a `bool`, and does not depend on
the representation: the start vertex of a closed curve, removable (collinear) vertices, the order of the
curves / components, int / Fraction / float coordinates of the same value.

What is PROVED here (all quantifiers unbounded unless said otherwise):
 1. `regionEq_refl` — the verified region-equality checker accepts `A, A` for EVERY shape value;
    `regionEq_certified`: if it accepts `A, B`, the regions agree at every point off the edges whose
    abscissa is not critical; `regionEq_rejection_has_witness`: a rejection exhibits a separating sample.
 2. `RegEq A B := ∀ r, A.memW r = B.memW r` is an equivalence (`regEq_refl/symm/trans`), true equality is
    always accepted (`regionEq_complete`), hence the checker is symmetric on truly equal regions.
 3. `eqJ`, the model of `jordan == jordan` on polygons (equality of the cleaned vertex cycle started at
    its lexicographically least vertex), is reflexive, symmetric (`eqJ_comm`: as a Bool, for all curves)
    and transitive.  It is TOTAL and Bool-valued by construction (a Lean function `Jordan → Jordan → Bool`):
    "never returns a non-bool / never raises" is a typing fact of the model, and a harness check on the code.
 4. start-vertex independence: `canonCycle_rotate` — for EVERY duplicate-free vertex list and every
    rotation, the canonical cycle is the same (uniqueness of the least vertex under `Pt.lt`);
    `eqJ_rotate_partial` — hence `eqJ (rotated polygon) (polygon) = true` for every duplicate-free
    vertex list WITHOUT removable vertex (`cleanStep vs = none`) and every rotation.
    `_partial` because: (a) polygons only; (b) for lists WITH removable vertices one needs confluence of
    the cleaning loop under rotation, which is not proved (`cleanStep_rotate` shows that "nothing
    removable" is rotation invariant; that is the only part needed here); (c) vertex lists with repeated
    points (not simple anyway) are excluded.
 5. coordinate-representation independence holds BY TYPING in the model: all coordinates are `Rat`, so
    `1`, `Fraction(1)`, `1.0` are the same value before any theorem applies; that the code converts
    them identically is C18 (`limit_denominator`) and a harness check.

NOT proved: that the code's `==` (area pre-test with 1e-6, greedy matching of sub-shapes, `Point2D.__eq__`
with 1e-9) coincides with `RegEq` — harness check against `regionEq` per executed call; invariance under
the order of curves/components is C19 (`connected_perm_invariant`, `disjoint_perm_invariant`).
-/
import ShapeVerif.Proofs.Algebra

namespace ShapeVerif.C07
open ShapeVerif ShapeVerif.Alg

/-- equality of regions -/
def RegEq (A B : Shape) : Prop := ∀ r, A.memW r = B.memW r

/-! ### (1), (2) regions -/
theorem regionEq_refl (A : Shape) : regionEq A A = true := Alg.regionEq_refl A

theorem regEq_refl (A : Shape) : RegEq A A := fun _ => rfl
theorem regEq_symm {A B : Shape} (h : RegEq A B) : RegEq B A := fun r => (h r).symm
theorem regEq_trans {A B C : Shape} (h1 : RegEq A B) (h2 : RegEq B C) : RegEq A C :=
  fun r => (h1 r).trans (h2 r)
theorem regEq_equivalence : Equivalence RegEq := ⟨regEq_refl, regEq_symm, regEq_trans⟩

theorem regionEq_certified (A B : Shape) (h : regionEq A B = true) (r : Pt)
    (hx : r.x ∉ criticalXs (A.edges ++ B.edges)) (hoff : ∀ e ∈ A.edges ++ B.edges, e.onEdge r = false) :
    A.memW r = B.memW r :=
  regionEq_sound A B h r hx (offLines_of_not_onEdge' _ r hoff)

theorem regionEq_rejection_has_witness (A B : Shape) (h : regionEq A B = false) :
    ∃ s ∈ slabSamples (A.edges ++ B.edges), A.memW s ≠ B.memW s := by
  obtain ⟨s, hs, hp⟩ := slabCheck_complete _ _ h
  exact ⟨s, hs, by simpa using hp⟩

/-- truly equal regions are always accepted -/
theorem regionEq_complete (A B : Shape) (h : RegEq A B) : regionEq A B = true := by
  cases hc : regionEq A B
  · obtain ⟨s, _, hne⟩ := regionEq_rejection_has_witness A B hc
    exact absurd (h s) hne
  · rfl

/-- … in both argument orders -/
theorem regionEq_symm_of_regEq (A B : Shape) (h : RegEq A B) : regionEq A B = true ∧ regionEq B A = true :=
  ⟨regionEq_complete A B h, regionEq_complete B A (regEq_symm h)⟩

/-- a region-equal pair is region-equal to the same third shapes: the certified relation is transitive
at every admissible point -/
theorem regionEq_trans_certified (A B C : Shape) (h1 : regionEq A B = true) (h2 : regionEq B C = true) (r : Pt)
    (hx1 : r.x ∉ criticalXs (A.edges ++ B.edges)) (hx2 : r.x ∉ criticalXs (B.edges ++ C.edges))
    (hoff : ∀ e ∈ A.edges ++ B.edges ++ C.edges, e.onEdge r = false) : A.memW r = C.memW r :=
  (regionEq_certified A B h1 r hx1 (fun e he => hoff e (by simp at he ⊢; tauto))).trans
    (regionEq_certified B C h2 r hx2 (fun e he => hoff e (by simp at he ⊢; tauto)))

/-! ### (3) `jordan == jordan` -/
theorem eqJ_refl (a : Jordan) : eqJ a a = true := Alg.eqJ_refl a
theorem eqJ_symm (a b : Jordan) (h : eqJ a b = true) : eqJ b a = true := Alg.eqJ_symm h
theorem eqJ_comm (a b : Jordan) : eqJ a b = eqJ b a := Alg.eqJ_comm a b
theorem eqJ_trans (a b c : Jordan) (h1 : eqJ a b = true) (h2 : eqJ b c = true) : eqJ a c = true :=
  Alg.eqJ_trans h1 h2
/-- `eqJ` is the kernel of the canonical form -/
theorem eqJ_iff_canon (a b : Jordan) : eqJ a b = true ↔ canonJ a = canonJ b := Alg.eqJ_iff a b

/-! ### (4) the start vertex does not matter -/
theorem canonCycle_rotate (vs : List Pt) (hnd : vs.Nodup) (k : Nat) (hk : k ≤ vs.length) :
    canonCycle (rotateL vs k) = canonCycle vs := Alg.canonCycle_rotate vs hnd k hk

/-- "no removable vertex" is invariant under rotation -/
theorem cleanStep_rotate (vs : List Pt) (k : Nat) (hk : k ≤ vs.length) (h : cleanStep vs = none) :
    cleanStep (rotateL vs k) = none := Alg.cleanStep_rotate vs k hk h

theorem eqJ_rotate_partial (vs : List Pt) (hnd : vs.Nodup) (hclean : cleanStep vs = none)
    (k : Nat) (hk : k ≤ vs.length) :
    eqJ (Jordan.fromVertices (rotateL vs k)) (Jordan.fromVertices vs) = true :=
  Alg.eqJ_rotate vs hnd hclean k hk

/-! ### non-vacuity -/
def sqV : List Pt := [⟨0,0⟩, ⟨2,0⟩, ⟨2,2⟩, ⟨0,2⟩]
example : sqV.Nodup ∧ cleanStep sqV = none ∧ rotateL sqV 3 = [⟨0,2⟩, ⟨0,0⟩, ⟨2,0⟩, ⟨2,2⟩] := by decide +kernel
-- a removable midpoint is cleaned away; the reversed curve is a different (oriented) curve
example : eqJ (Jordan.fromVertices [⟨0,0⟩, ⟨1,0⟩, ⟨2,0⟩, ⟨2,2⟩, ⟨0,2⟩]) (Jordan.fromVertices sqV) = true ∧
    eqJ (Jordan.fromVertices sqV).invert (Jordan.fromVertices sqV) = false := by decide +kernel
example : regionEq (.simple (Jordan.fromVertices sqV)) (.simple (Jordan.fromVertices (rotateL sqV 2))) = true ∧
    regionEq (.simple (Jordan.fromVertices sqV)) (.simple (Jordan.fromVertices [⟨0,0⟩, ⟨3,0⟩, ⟨3,2⟩, ⟨0,2⟩])) = false := by
  decide +kernel

end ShapeVerif.C07
