/-
C12 (and the geometric half of C09) — covariance of the exact predicates under translation and
positive (axis) scaling, and of the area under exact rotation.
Only property theorems here; helper lemmas are in Proofs/Geom.lean.
Quantifiers: ALL rational points / factors; polygons are ALL lists of two-point segments
(`isPolygon`), closed polygons are `Jordan.fromVertices vs` for ALL vertex lists.
-/
import ShapeVerif.Proofs.Geom
import ShapeVerif.Gen.Tables

namespace ShapeVerif.C12
open ShapeVerif ShapeVerif.Geom

/-! ### the cross product of differences -/
theorem cross_translate (a b c e d : Pt) :
    Pt.cross ((a.move d) - (b.move d)) ((c.move d) - (e.move d)) = Pt.cross (a - b) (c - e) := by
  rw [Pt.move_sub_move, Pt.move_sub_move]

theorem cross_scale (a b c e : Pt) (sx sy : Rat) :
    Pt.cross ((a.scale sx sy) - (b.scale sx sy)) ((c.scale sx sy) - (e.scale sx sy))
      = sx * sy * Pt.cross (a - b) (c - e) := by
  rw [Pt.scale_sub_scale, Pt.scale_sub_scale, Pt.cross_scale]

theorem cross_scale_uniform (a b c e : Pt) (k : Rat) :
    Pt.cross ((a.scale k k) - (b.scale k k)) ((c.scale k k) - (e.scale k k))
      = k * k * Pt.cross (a - b) (c - e) := cross_scale a b c e k k

theorem cross_rot (a b c e : Pt) (cs sn : Rat) :
    Pt.cross ((a.rot cs sn) - (b.rot cs sn)) ((c.rot cs sn) - (e.rot cs sn))
      = (cs * cs + sn * sn) * Pt.cross (a - b) (c - e) := by
  rw [Pt.rot_sub_rot, Pt.rot_sub_rot, Pt.cross_rot]

/-! ### `Intersection.lines` returns the same parameters -/
theorem linesInter_translate (a0 a1 b0 b1 d : Pt) :
    linesInter (a0.move d) (a1.move d) (b0.move d) (b1.move d) = linesInter a0 a1 b0 b1 := by
  unfold linesInter
  simp only [Pt.move_sub_move]

theorem linesInter_scale (a0 a1 b0 b1 : Pt) (sx sy : Rat) (hx : sx ≠ 0) (hy : sy ≠ 0) :
    linesInter (a0.scale sx sy) (a1.scale sx sy) (b0.scale sx sy) (b1.scale sx sy)
      = linesInter a0 a1 b0 b1 := by
  have hk : sx * sy ≠ 0 := mul_ne_zero hx hy
  unfold linesInter
  simp only [Pt.scale_sub_scale, Pt.cross_scale, mul_div_mul_left _ _ hk, ne_eq, mul_eq_zero, hx, hy,
    or_self, false_or]

theorem linesInter_scale_uniform (a0 a1 b0 b1 : Pt) (k : Rat) (hk : k ≠ 0) :
    linesInter (a0.scale k k) (a1.scale k k) (b0.scale k k) (b1.scale k k) = linesInter a0 a1 b0 b1 :=
  linesInter_scale a0 a1 b0 b1 k k hk hk

/-- exact rotation (`c² + s² = 1`, in fact any similarity `c² + s² ≠ 0`) keeps the parameters too -/
theorem linesInter_rot (a0 a1 b0 b1 : Pt) (c s : Rat) (h : c * c + s * s ≠ 0) :
    linesInter (a0.rot c s) (a1.rot c s) (b0.rot c s) (b1.rot c s) = linesInter a0 a1 b0 b1 := by
  unfold linesInter
  simp only [Pt.rot_sub_rot, Pt.cross_rot, mul_div_mul_left _ _ h, ne_eq, mul_eq_zero, h, false_or]

/-! ### the ray-crossing predicate and the crossing number -/
theorem below_translate (e : Edge) (d r : Pt) :
    (⟨e.p.move d, e.q.move d⟩ : Edge).below (r.move d) = e.below r := below_move e d r
theorem dir_translate (e : Edge) (d : Pt) : (⟨e.p.move d, e.q.move d⟩ : Edge).dir = e.dir := dir_move e d

theorem below_scale (e : Edge) (sx sy : Rat) (hx : 0 < sx) (hy : 0 < sy) (r : Pt) :
    (⟨e.p.scale sx sy, e.q.scale sx sy⟩ : Edge).below (r.scale sx sy) = e.below r :=
  Geom.below_scale e sx sy hx hy r
theorem dir_scale (e : Edge) (sx sy : Rat) (hx : 0 < sx) :
    (⟨e.p.scale sx sy, e.q.scale sx sy⟩ : Edge).dir = e.dir := Geom.dir_scale e sx sy hx

theorem wind_translate (es : List Edge) (d r : Pt) :
    wind (es.map fun e => ⟨e.p.move d, e.q.move d⟩) (r.move d) = wind es r :=
  wind_map (·.move d) es r (fun e => contrib_move e d r)

theorem wind_scale (es : List Edge) (sx sy : Rat) (hx : 0 < sx) (hy : 0 < sy) (r : Pt) :
    wind (es.map fun e => ⟨e.p.scale sx sy, e.q.scale sx sy⟩) (r.scale sx sy) = wind es r :=
  wind_map (·.scale sx sy) es r (fun e => contrib_scale e sx sy hx hy r)

/-! ### areas -/
/-- scaling multiplies the area of every polygon (closed or not) by `sx·sy` -/
theorem area_scale (j : Jordan) (hj : j.isPolygon = true) (sx sy : Rat) :
    Jordan.area (Jordan.map (·.scale sx sy) j) = sx * sy * Jordan.area j := area_scale_poly j hj sx sy

/-- translation of a polygon: the area changes by `d.x · ∮ dy` -/
theorem area_translate_gen (j : Jordan) (hj : j.isPolygon = true) (d : Pt) :
    Jordan.area (Jordan.map (·.move d) j) = Jordan.area j + d.x * jordanExactVertical j 0 0 :=
  area_move_poly j hj d

/-- … hence is unchanged as soon as `∮ dy = 0`, which holds for every closed curve -/
theorem area_translate (j : Jordan) (hj : j.isPolygon = true) (hc : jordanExactVertical j 0 0 = 0) (d : Pt) :
    Jordan.area (Jordan.map (·.move d) j) = Jordan.area j := by
  rw [area_move_poly j hj d, hc]; ring

theorem closed_fromVertices (vs : List Pt) : jordanExactVertical (Jordan.fromVertices vs) 0 0 = 0 :=
  closed_dy_fromVertices vs

theorem area_translate_fromVertices (vs : List Pt) (d : Pt) :
    Jordan.area (Jordan.fromVertices (vs.map (·.move d))) = Jordan.area (Jordan.fromVertices vs) := by
  rw [← fromVertices_map]
  exact area_translate _ (fromVertices_polygon vs) (closed_dy_fromVertices vs) d

/-- exact rotation of a closed polygon with ANY number of vertices -/
theorem area_rot (vs : List Pt) (c s : Rat) (h : c * c + s * s = 1) :
    Jordan.area (Jordan.fromVertices (vs.map (·.rot c s))) = Jordan.area (Jordan.fromVertices vs) := by
  rw [area_rot_fromVertices, h, one_mul]

theorem area_rot_triangle (p q r : Pt) (c s : Rat) (h : c * c + s * s = 1) :
    Jordan.area (Jordan.fromVertices [p.rot c s, q.rot c s, r.rot c s])
      = Jordan.area (Jordan.fromVertices [p, q, r]) := area_rot [p, q, r] c s h
theorem area_rot_quad (p q r t : Pt) (c s : Rat) (h : c * c + s * s = 1) :
    Jordan.area (Jordan.fromVertices [p.rot c s, q.rot c s, r.rot c s, t.rot c s])
      = Jordan.area (Jordan.fromVertices [p, q, r, t]) := area_rot [p, q, r, t] c s h

/-! ### membership by winding number -/
theorem memW_scale (j : Jordan) (hj : j.isPolygon = true) (sx sy : Rat) (hx : 0 < sx) (hy : 0 < sy) (r : Pt) :
    memW (Jordan.map (·.scale sx sy) j) (r.scale sx sy) = memW j r := by
  have hw : wind (Jordan.map (·.scale sx sy) j).edges (r.scale sx sy) = wind j.edges r := by
    rw [edges_map _ _ (polygon_nonempty j hj)]
    exact wind_map (·.scale sx sy) _ r (fun e => contrib_scale e sx sy hx hy r)
  have hc : (Jordan.map (·.scale sx sy) j).ccw = j.ccw := by
    simp only [Jordan.ccw, area_scale_poly j hj]
    have : 0 < sx * sy := mul_pos hx hy
    rw [decide_eq_decide]
    exact ⟨fun h => by nlinarith, fun h => by nlinarith⟩
  simp only [memW, hw, hc]

theorem memW_translate (j : Jordan) (hj : j.isPolygon = true) (hc : jordanExactVertical j 0 0 = 0) (d r : Pt) :
    memW (Jordan.map (·.move d) j) (r.move d) = memW j r := by
  have hw : wind (Jordan.map (·.move d) j).edges (r.move d) = wind j.edges r := by
    rw [edges_map _ _ (polygon_nonempty j hj)]
    exact wind_map (·.move d) _ r (fun e => contrib_move e d r)
  have hcc : (Jordan.map (·.move d) j).ccw = j.ccw := by
    simp only [Jordan.ccw, area_translate j hj hc d]
  simp only [memW, hw, hcc]

theorem memW_translate_fromVertices (vs : List Pt) (d r : Pt) :
    memW (Jordan.fromVertices (vs.map (·.move d))) (r.move d) = memW (Jordan.fromVertices vs) r := by
  rw [← fromVertices_map]
  exact memW_translate _ (fromVertices_polygon vs) (closed_dy_fromVertices vs) d r

theorem memW_scale_fromVertices (vs : List Pt) (sx sy : Rat) (hx : 0 < sx) (hy : 0 < sy) (r : Pt) :
    memW (Jordan.fromVertices (vs.map (·.scale sx sy))) (r.scale sx sy) = memW (Jordan.fromVertices vs) r := by
  rw [← fromVertices_map]
  exact memW_scale _ (fromVertices_polygon vs) sx sy hx hy r

/-! ### any exactly closed polygon (every end point IS the next start point, cyclically) -/
theorem closed_of_exactClosed (j : Jordan) (hj : j.isPolygon = true) (h : ExactClosed j) :
    jordanExactVertical j 0 0 = 0 := closed_dy_exactClosed j hj h

theorem fromVertices_exactClosed (vs : List Pt) : ExactClosed (Jordan.fromVertices vs) :=
  exactClosed_fromVertices vs

theorem area_translate_closed (j : Jordan) (hj : j.isPolygon = true) (h : ExactClosed j) (d : Pt) :
    Jordan.area (Jordan.map (·.move d) j) = Jordan.area j :=
  area_translate j hj (closed_dy_exactClosed j hj h) d

theorem memW_translate_closed (j : Jordan) (hj : j.isPolygon = true) (h : ExactClosed j) (d r : Pt) :
    memW (Jordan.map (·.move d) j) (r.move d) = memW j r :=
  memW_translate j hj (closed_dy_exactClosed j hj h) d r

theorem area_rot_closed (j : Jordan) (hj : j.isPolygon = true) (h : ExactClosed j) (c s : Rat)
    (hcs : c * c + s * s = 1) : Jordan.area (Jordan.map (·.rot c s) j) = Jordan.area j := by
  rw [Geom.area_rot_closed j hj h, hcs, one_mul]

/-! ### non-vacuity -/
example : memW (Jordan.fromVertices [⟨0,0⟩, ⟨4,0⟩, ⟨0,3⟩]) ⟨1,1⟩ = true := by decide +kernel
example : memW (Jordan.fromVertices (([⟨0,0⟩, ⟨4,0⟩, ⟨0,3⟩] : List Pt).map (·.move ⟨5/2,-7⟩))) ((⟨1,1⟩ : Pt).move ⟨5/2,-7⟩) = true := by
  decide +kernel
example : Jordan.area (Jordan.fromVertices [⟨0,0⟩, ⟨4,0⟩, ⟨0,3⟩]) = 6 := by decide +kernel
example : Jordan.area (Jordan.fromVertices (([⟨0,0⟩, ⟨4,0⟩, ⟨0,3⟩] : List Pt).map (·.rot (3/5) (4/5)))) = 6 := by decide +kernel
example : linesInter ((⟨0,0⟩ : Pt).scale 3 (1/2)) ((⟨2,0⟩ : Pt).scale 3 (1/2)) ((⟨1,-1⟩ : Pt).scale 3 (1/2))
    ((⟨1,1⟩ : Pt).scale 3 (1/2)) = some (1/2, 1/2) := by decide +kernel


/-! ### the tolerances of the source are ABSOLUTE constants (regenerated from the source on every run) -/

/-- every tolerance literal the properties mention is the absolute constant of the model: point equality 1e-9, box margins 1e-6,
split end filter 1e-6, on-curve distance 1e-6, degree-reduction error 1e-9.  None of them scales with the drawing: this is the
mechanism behind findings K1 and K6 (DESIGN §14.6). -/
theorem tolerances_are_absolute_constants :
    Gen.pointEqTol = some tol9 ∧ Gen.pointEqTolMin = some tol9 ∧ Gen.boxDx = some tol6 ∧ Gen.boxDy = some tol6 ∧
    Gen.splitEndTol = some tol6 ∧ Gen.splitEndTolMin = some tol6 ∧ Gen.onCurveTol = some tol6 ∧ Gen.cleanTol = some tol9 :=
  ⟨rfl, rfl, rfl, rfl, rfl, rfl, rfl, rfl⟩

end ShapeVerif.C12
