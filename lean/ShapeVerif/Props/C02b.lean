/-
C02b — point membership for boundaries with CURVED pieces: the subdivision the code performs, and what it certifies.

`IntegratePlanar.winding_number` (curve.py, after fix 9d45f83) halves a curved piece while the query point is inside the box of
its control points and then uses the chord.  `Model/WindCurved.lean` mirrors that recursion exactly (`subdivChords`,
`windCurved`) and adds the same recursion as a certificate (`offCurveCert`).  PROVED here, for control polygons of EVERY degree:
 * `windCurved_polygon` — on polygons the curved model IS the polygon model (`wind` of C02): one definition of membership.
 * `offCurveCert_sound` / `offBoundaryCert_sound` — if the subdivision stops everywhere because the point is outside the box of the
   piece (never because the depth ran out), then the point is on NO point of the curve: for every piece and every parameter
   t ∈ [0,1], seg(t) ≠ p.  (Each half retraces its part of the curve — C18b `split_left_all/right_all` — and a curve lies in the
   box of its control points — `box_contains_curve_all`.)  So "p is off the boundary", the hypothesis under which the
   boundary flag is irrelevant, is DECIDED by the model for curved shapes, with a proof, instead of being sampled.
 * `subdivChords_nonempty`, `subdivChords_polygon_piece` — structural facts used by the harness (at least one chord per piece;
   a straight piece contributes exactly its own edge, whatever the depth).
 * `triangle_interior` / `triangle_exterior` / `triangle_interior_cw` — GROUND TRUTH beyond rectangles: for every counter-clockwise
   triangle (any position, vertical edges and points below a vertex included) the crossing number is 1 exactly at the points
   strictly left of all three directed edges and 0 at every point strictly right of one of them; −1 inside a clockwise triangle.
   With additivity of `wind` over edge lists and cancellation of reversed edges (C02 (4)) this pins the crossing number down on
   every triangulated polygon.
NOT proved (classical plane topology, as in C02): that the crossing number of the chord chain equals the winding number of the
curve itself when the point is outside every terminal box (convex-hull property + homotopy invariance).
-/
import ShapeVerif.Props.C02
import ShapeVerif.Props.C18b
import ShapeVerif.Model.WindCurved
import ShapeVerif.Proofs.TriangleGen

namespace ShapeVerif.C02
open ShapeVerif

/-- a straight piece contributes its own edge at every depth -/
theorem subdivChords_polygon_piece (c : Pt) (fuel : Nat) (s : Seg) (hs : s.length = 2) :
    subdivChords c fuel s = [s.chord] := by
  cases fuel with
  | zero => rfl
  | succ n => simp [subdivChords, hs]

theorem subdivChords_nonempty (c : Pt) (fuel : Nat) (s : Seg) : subdivChords c fuel s ≠ [] := by
  induction fuel generalizing s with
  | zero => simp [subdivChords]
  | succ n ih =>
    unfold subdivChords
    split
    · simp
    · split
      · intro h
        exact ih _ (List.append_eq_nil_iff.mp h).1
      · simp

/-- on polygons the curved model is the polygon model -/
theorem windCurved_polygon (j : Jordan) (hj : j.isPolygon = true) (r : Pt) : windCurved j r = wind j.edges r := by
  unfold windCurved Jordan.edges
  congr 1
  have hlen : ∀ s ∈ j, s.length = 2 := fun s hs => by
    have := List.all_eq_true.mp hj s hs; simpa using this
  clear hj
  induction j with
  | nil => rfl
  | cons s j ih =>
    simp only [List.flatMap_cons, List.map_cons]
    rw [subdivChords_polygon_piece r _ s (hlen s (by simp)), ih (fun s' hs' => hlen s' (List.mem_cons_of_mem _ hs'))]
    rfl

theorem memCurved_polygon (j : Jordan) (hj : j.isPolygon = true) (r : Pt) : memCurved j r = memW j r := by
  unfold memCurved memW; rw [windCurved_polygon j hj r]

/-- outside the box with margins ⇒ outside the exact box -/
theorem not_contains_of_not_containsTol (b : Box) (p : Pt) (h : b.containsTol p = false) : b.contains p = false := by
  have ht : (0 : Rat) < tol6 := by unfold tol6; norm_num
  unfold Box.containsTol at h
  unfold Box.contains
  simp only [Bool.not_eq_false', Bool.or_eq_true, decide_eq_true_eq] at h
  simp only [Bool.and_eq_false_iff, decide_eq_false_iff_not, not_le]
  rcases h with ((h | h) | h) | h
  · left; left; left; linarith
  · left; right; linarith
  · left; left; right; linarith
  · right; linarith

/-- a point outside the (margin) box of the control points is no point of the curve -/
theorem off_curve_of_box (s : Seg) (hs : s ≠ []) (c : Pt) (h : (Seg.box s).containsTol c = false)
    (t : Rat) (ht : 0 ≤ t ∧ t ≤ 1) : evalSeg s t ≠ c := by
  intro he
  have h1 := C18.box_contains_curve_all s hs t ht
  rw [he, not_contains_of_not_containsTol _ _ h] at h1
  exact Bool.noConfusion h1

/-- the certificate is sound: a certified point is on no point of the curve, for every degree and every depth -/
theorem offCurveCert_sound (c : Pt) (fuel : Nat) (s : Seg) (hs : s ≠ []) (h : offCurveCert c fuel s = true)
    (t : Rat) (ht : 0 ≤ t ∧ t ≤ 1) : evalSeg s t ≠ c := by
  induction fuel generalizing s t with
  | zero =>
    simp only [offCurveCert, Bool.not_eq_true'] at h
    exact off_curve_of_box s hs c h t ht
  | succ n ih =>
    unfold offCurveCert at h
    by_cases hb : (Seg.box s).containsTol c = true
    · rw [if_pos hb] at h
      by_cases hl : s.length ≤ 2
      · rw [if_pos hl] at h; exact Bool.noConfusion h
      · rw [if_neg hl, Bool.and_eq_true] at h
        obtain ⟨h1, h2⟩ := splitAt_lengths s (1 / 2)
        have hne1 : (splitAt s (1 / 2)).1 ≠ [] := by
          intro he; rw [he] at h1; simp at h1; omega
        have hne2 : (splitAt s (1 / 2)).2 ≠ [] := by
          intro he; rw [he] at h2; simp at h2; omega
        by_cases hthalf : t ≤ 1 / 2
        · have := ih _ hne1 h.1 (2 * t) ⟨by linarith [ht.1], by linarith⟩
          rw [C18.split_left_all s hs] at this
          have e : (1 / 2 : Rat) * (2 * t) = t := by ring
          rwa [e] at this
        · have hgt : 1 / 2 < t := lt_of_not_ge hthalf
          have := ih _ hne2 h.2 (2 * t - 1) ⟨by linarith, by linarith [ht.2]⟩
          rw [C18.split_right_all s hs] at this
          have e : (1 / 2 : Rat) + (2 * t - 1) * (1 - 1 / 2) = t := by ring
          rwa [e] at this
    · have hb' : (Seg.box s).containsTol c = false := by simpa using hb
      exact off_curve_of_box s hs c hb' t ht

/-- … for a whole boundary: a certified point lies on no piece -/
theorem offBoundaryCert_sound (j : Jordan) (hj : ∀ s ∈ j, s ≠ []) (r : Pt) (h : offBoundaryCert j r = true) :
    ∀ s ∈ j, ∀ t : Rat, 0 ≤ t ∧ t ≤ 1 → evalSeg s t ≠ r := by
  intro s hs t ht
  exact offCurveCert_sound r curvedDepth s (hj s hs) (List.all_eq_true.mp h s hs) t ht

/-! ### triangles: the crossing number is the elementary inside test -/
theorem triangle_interior (p q r x : Pt) (hccw : 0 < triCross p q r)
    (h1 : 0 < triCross p q x) (h2 : 0 < triCross q r x) (h3 : 0 < triCross r p x) :
    wind (Jordan.fromVertices [p, q, r]).edges x = 1 := triangle_wind_inside p q r x hccw h1 h2 h3

theorem triangle_exterior (p q r x : Pt) (hccw : 0 < triCross p q r)
    (hout : triCross p q x < 0 ∨ triCross q r x < 0 ∨ triCross r p x < 0) :
    wind (Jordan.fromVertices [p, q, r]).edges x = 0 := triangle_wind_outside p q r x hccw hout

theorem triangle_interior_cw (p q r x : Pt) (hcw : triCross p q r < 0)
    (h1 : triCross p q x < 0) (h2 : triCross q r x < 0) (h3 : triCross r p x < 0) :
    wind (Jordan.fromVertices [p, q, r]).edges x = -1 := triangle_wind_inside_cw p q r x hcw h1 h2 h3

/-- membership of a counter-clockwise triangle = strictly inside, at every point off the three edge lines -/
theorem triangle_membership (p q r x : Pt) (hccw : 0 < triCross p q r)
    (hoff : triCross p q x ≠ 0 ∧ triCross q r x ≠ 0 ∧ triCross r p x ≠ 0) :
    (wind (Jordan.fromVertices [p, q, r]).edges x = 1) ↔
      (0 < triCross p q x ∧ 0 < triCross q r x ∧ 0 < triCross r p x) := by
  constructor
  · intro hw
    by_contra hn
    have : triCross p q x < 0 ∨ triCross q r x < 0 ∨ triCross r p x < 0 := by
      by_contra hall
      push Not at hall
      exact hn ⟨lt_of_le_of_ne hall.1 (Ne.symm hoff.1), lt_of_le_of_ne hall.2.1 (Ne.symm hoff.2.1),
        lt_of_le_of_ne hall.2.2 (Ne.symm hoff.2.2)⟩
    rw [triangle_wind_outside p q r x hccw this] at hw
    exact absurd hw (by decide)
  · rintro ⟨h1, h2, h3⟩
    exact triangle_wind_inside p q r x hccw h1 h2 h3

/-! ### non-vacuity: a quadratic "D" (parabola arc closed by a chord) — inside, outside, and a point in the sagitta band
between the arc and its chord polygon, where the chord approximation of the pinned tree was wrong -/
def dShape : Jordan := [[⟨0, -1⟩, ⟨2, 0⟩, ⟨0, 1⟩], [⟨0, 1⟩, ⟨0, -1⟩]]
example : memCurved dShape ⟨1/2, 0⟩ = true ∧ memCurved dShape ⟨2, 0⟩ = false ∧ memCurved dShape ⟨-1, 0⟩ = false := by
  decide +kernel
-- the apex of the arc is (1, 0): (9/10, 0) is inside although it is outside the triangle (0,-1),(0,1) of the single chord
example : memCurved dShape ⟨9/10, 0⟩ = true ∧ offBoundaryCert [[⟨0, -1⟩, ⟨2, 0⟩, ⟨0, 1⟩]] ⟨9/10, 0⟩ = true := by decide +kernel
example : memCurved dShape ⟨11/10, 0⟩ = false ∧ offBoundaryCert [[⟨0, -1⟩, ⟨2, 0⟩, ⟨0, 1⟩]] ⟨11/10, 0⟩ = true := by decide +kernel
-- a point ON the arc is never certified
example : offBoundaryCert [[⟨0, -1⟩, ⟨2, 0⟩, ⟨0, 1⟩]] ⟨1, 0⟩ = false := by decide +kernel

end ShapeVerif.C02
