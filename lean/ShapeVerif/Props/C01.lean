/-
C01 — boolean operators compute the set-theoretic result, point by point.

FULL STATEMENT (informal, over the real code): for all shapes A, B, every nested operator expression e
over them and every point p off the operand boundaries, `p in e(A,B,…)` iff the pointwise meaning holds,
and the operator returns for transversal operands.

What is PROVED here (all quantifiers unbounded):
 1. `derived_ops_denote`, `empty_ops_denote`, `whole_ops_denote` — on the method bodies REGENERATED from
    shape.py (Gen/Dispatch.lean): `-`, `^`, `+`, `*`, unary `-` and every Empty/Whole operator have the
    right truth table given that `|`, `&`, `~` denote ∪, ∩, complement.
 2. `shortcuts_sound` — every short-cut return of `DefinedShape.__or__/__and__` denotes the right set at
    every point where the meaning of its guard holds (so a wrong answer needs a wrong containment test:
    C03), and the fall-through calls the right recombination with the right singleton for "no curve".
 3. `expr_denotes` — by induction on expressions: every nested expression denotes `evalSpec`.
 4. `result_certified`, `expr_result_certified` — the verified checker: if `regionCheck`/`exprCheckFind`
    accepts the implementation's actual result R then R is right at EVERY point off the edges whose
    abscissa is not critical (`C01_partial`: certification per executed result, not for all inputs — the
    recombination algorithm FollowPath itself is not modelled).
 5. `open_membership_is_winding` — off the boundary the code's decision rule `contains_point(p, False)`
    is the winding-number region the checker talks about.
-/
import ShapeVerif.Proofs.Slab
import ShapeVerif.Gen.Dispatch

namespace ShapeVerif.C01
open ShapeVerif

/-- (1) the derived operators of `BaseShape`, as translated from the source -/
theorem derived_ops_denote : ∀ s o : Bool,
    Term.den Gen.baseMethods 16 (.sub .self .other) s o = some (s && !o) ∧
    Term.den Gen.baseMethods 16 (.xor .self .other) s o = some (s != o) ∧
    Term.den Gen.baseMethods 16 (.add .self .other) s o = some (s || o) ∧
    Term.den Gen.baseMethods 16 (.mul .self .other) s o = some (s && o) ∧
    Term.den Gen.baseMethods 16 (.neg .self) s o = some (!s) := by decide

/-- the set-theoretic meaning of an operator name -/
def spec : String → Bool → Bool → Bool
  | "or", s, o => s || o
  | "and", s, o => s && o
  | "sub", s, o => s && !o
  | "xor", s, o => s != o
  | "invert", s, _ => !s
  | "neg", s, _ => !s
  | "add", s, o => s || o
  | "mul", s, o => s && o
  | _, _, _ => false

/-- (1) every operator of `EmptyShape` (self is nowhere) -/
theorem empty_ops_denote : Gen.emptyOps.length = 8 ∧ ∀ nt ∈ Gen.emptyOps, ∀ o : Bool,
    Term.den Gen.baseMethods 16 nt.2 false o = some (spec nt.1 false o) := by decide

/-- (1) every operator of `WholeShape` (self is everywhere) -/
theorem whole_ops_denote : Gen.wholeOps.length = 8 ∧ ∀ nt ∈ Gen.wholeOps, ∀ o : Bool,
    Term.den Gen.baseMethods 16 nt.2 true o = some (spec nt.1 true o) := by decide

/-- (2) the short-cut chains of `DefinedShape.__or__` and `__and__` -/
theorem shortcuts_sound :
    Gen.definedOr.shortcutsSound Gen.baseMethods (fun s o => s || o) = true ∧
    Gen.definedOr.recombine = "or_shapes" ∧ Gen.definedOr.onEmpty = .whole ∧
    Gen.definedAnd.shortcutsSound Gen.baseMethods (fun s o => s && o) = true ∧
    Gen.definedAnd.recombine = "and_shapes" ∧ Gen.definedAnd.onEmpty = .empty := by decide

/-- how the implementation evaluates an expression at one point, node by node, with the translated methods -/
def opTerm : BOp → Term
  | .or => .or .self .other
  | .and => .and .self .other
  | .sub => .sub .self .other
  | .xor => .xor .self .other

def implSem (env : Nat → Bool) : Expr → Option Bool
  | .leaf i => some (env i)
  | .inv e => (implSem env e).bind fun x => Term.den Gen.baseMethods 16 (.inv .self) x false
  | .bin op l r => (implSem env l).bind fun x => (implSem env r).bind fun y =>
      Term.den Gen.baseMethods 16 (opTerm op) x y

theorem op_denotes (op : BOp) : ∀ x y : Bool, Term.den Gen.baseMethods 16 (opTerm op) x y = some (op.eval x y) := by
  cases op <;> decide

/-- (3) the "programs" quantifier: every nested expression denotes its pointwise meaning -/
theorem expr_denotes (env : Nat → Bool) (e : Expr) : implSem env e = some (e.evalSpec env) := by
  induction e with
  | leaf i => rfl
  | inv e ih =>
    simp only [implSem, ih, Option.bind_some, Expr.evalSpec]
    cases e.evalSpec env <;> decide
  | bin op l r ihl ihr =>
    simp only [implSem, ihl, ihr, Option.bind_some, Expr.evalSpec]
    exact op_denotes op _ _

/-- (4) C01_partial: an accepted result is right at every point off the edges, outside finitely many vertical lines -/
theorem result_certified (op : BOp) (A B R : Shape) (h : regionCheck op A B R = true) (r : Pt)
    (hx : r.x ∉ criticalXs (A.edges ++ B.edges ++ R.edges))
    (hoff : ∀ e ∈ A.edges ++ B.edges ++ R.edges, e.onEdge r = false) :
    R.memW r = op.eval (A.memW r) (B.memW r) :=
  regionCheck_sound op A B R h r hx (offLines_of_not_onEdge' _ r hoff)

theorem expr_result_certified (leaves : List Shape) (e : Expr) (R : Shape)
    (h : exprCheckFind leaves e R = none) (r : Pt)
    (hx : r.x ∉ criticalXs (leaves.flatMap Shape.edges ++ R.edges))
    (hoff : ∀ e' ∈ leaves.flatMap Shape.edges ++ R.edges, e'.onEdge r = false) :
    R.memW r = e.evalSpec (fun i => (leaves.getD i Shape.empty).memW r) :=
  exprCheck_sound leaves e R h r hx (offLines_of_not_onEdge' _ r hoff)

/-- the checker never raises a false alarm: a rejection exhibits a sample point where the result is wrong -/
theorem rejection_has_witness (op : BOp) (A B R : Shape) (h : regionCheck op A B R = false) :
    ∃ s ∈ slabSamples (A.edges ++ B.edges ++ R.edges), R.memW s ≠ op.eval (A.memW s) (B.memW s) := by
  obtain ⟨s, hs, hp⟩ := slabCheck_complete _ _ h
  refine ⟨s, hs, ?_⟩
  simpa [regionOpPred] using hp

/-- (5) off the boundary, the code's open membership rule is exactly the winding-number region -/
theorem open_membership_is_winding (j : Jordan) (r : Pt) (h : j.onBoundary r = false) :
    memJ j r false = memW j r := by
  unfold memJ memW windHalves simpleTable
  simp only [h, Bool.false_eq_true, if_false]
  cases j.ccw <;> simp

/-- non-vacuity: two overlapping squares; their intersection is accepted and a wrong answer is rejected -/
def sqA : Shape := .simple (Jordan.fromVertices [⟨0,0⟩, ⟨2,0⟩, ⟨2,2⟩, ⟨0,2⟩])
def sqB : Shape := .simple (Jordan.fromVertices [⟨1,1⟩, ⟨3,1⟩, ⟨3,3⟩, ⟨1,3⟩])
def sqAB : Shape := .simple (Jordan.fromVertices [⟨1,1⟩, ⟨2,1⟩, ⟨2,2⟩, ⟨1,2⟩])
example : regionCheck .and sqA sqB sqAB = true ∧ regionCheck .or sqA sqB sqAB = false := by decide +kernel

end ShapeVerif.C01
