/-
C16 — the primitive factories (`Primitive.square/triangle/regular_polygon(4)/circle`):
exact areas, orientation, the centre is strictly inside, and the quadratic arcs of the circle stay
in an explicit thin band around the true circle.
Only property theorems here; helper lemmas are in Proofs/Geom.lean.
Quantifiers: ALL rational sizes / radii / centres, ALL `h = tan(θ/2)`, ALL parameters, ALL arc indices.
-/
import ShapeVerif.Proofs.Geom
import ShapeVerif.Gen.Tables

namespace ShapeVerif.C16
open ShapeVerif ShapeVerif.Geom ShapeVerif.Primitive

/-! ### polygons: area and orientation -/
theorem square_area (s : Rat) (c : Pt) : Jordan.area (Jordan.fromVertices (square s c)) = s * s :=
  Geom.square_area s c
theorem triangle_area (s : Rat) (c : Pt) : Jordan.area (Jordan.fromVertices (triangle s c)) = s * s / 2 :=
  Geom.triangle_area s c
theorem regular4_area (r : Rat) (c : Pt) : Jordan.area (Jordan.fromVertices (regular4 r c)) = 2 * r * r :=
  Geom.regular4_area r c

/-- counter-clockwise exactly when the size is nonzero (in particular for every size the factory accepts) -/
theorem square_ccw (s : Rat) (c : Pt) : (Jordan.fromVertices (square s c)).ccw = true ↔ s ≠ 0 := by
  simp only [Jordan.ccw, Geom.square_area, decide_eq_true_eq]
  exact ⟨fun h hs => by rw [hs] at h; simp at h, fun h => mul_self_pos.mpr h⟩
theorem triangle_ccw (s : Rat) (c : Pt) : (Jordan.fromVertices (triangle s c)).ccw = true ↔ s ≠ 0 := by
  simp only [Jordan.ccw, Geom.triangle_area, decide_eq_true_eq]
  constructor
  · intro h hs; rw [hs] at h; simp at h
  · intro h; have := mul_self_pos.mpr h; linarith
theorem regular4_ccw (r : Rat) (c : Pt) : (Jordan.fromVertices (regular4 r c)).ccw = true ↔ r ≠ 0 := by
  simp only [Jordan.ccw, Geom.regular4_area, decide_eq_true_eq]
  constructor
  · intro h hs; rw [hs] at h; simp at h
  · intro h; have := mul_self_pos.mpr h; nlinarith
theorem square_area_pos (s : Rat) (c : Pt) (h : validSize s = true) :
    0 < Jordan.area (Jordan.fromVertices (square s c)) := by
  rw [Geom.square_area]; simp only [validSize, decide_eq_true_eq] at h; exact mul_pos h h
theorem triangle_area_pos (s : Rat) (c : Pt) (h : validSize s = true) :
    0 < Jordan.area (Jordan.fromVertices (triangle s c)) := by
  rw [Geom.triangle_area]; simp only [validSize, decide_eq_true_eq] at h; have := mul_pos h h; linarith
theorem regular4_area_pos (r : Rat) (c : Pt) (h : validRegular 4 r = true) :
    0 < Jordan.area (Jordan.fromVertices (regular4 r c)) := by
  rw [Geom.regular4_area]
  simp only [validRegular, Bool.and_eq_true, decide_eq_true_eq] at h
  have := mul_pos h.2 h.2; nlinarith

/-! ### every point of the open square / diamond / triangle has crossing number 1; so has the centre -/
theorem square_wind_interior (s : Rat) (c r : Pt) (hs : 0 < s)
    (hx1 : c.x - s / 2 < r.x) (hx2 : r.x < c.x + s / 2) (hy1 : c.y - s / 2 < r.y) (hy2 : r.y < c.y + s / 2) :
    wind (Jordan.fromVertices (square s c)).edges r = 1 := square_wind_inside s c r hs hx1 hx2 hy1 hy2

theorem square_centre (s : Rat) (c : Pt) (hs : 0 < s) : wind (Jordan.fromVertices (square s c)).edges c = 1 :=
  square_wind_inside s c c hs (by linarith) (by linarith) (by linarith) (by linarith)

theorem regular4_wind_interior (ρ : Rat) (c r : Pt)
    (h1 : (r.x - c.x) + (r.y - c.y) < ρ) (h2 : -(r.x - c.x) + (r.y - c.y) < ρ)
    (h3 : -(r.x - c.x) - (r.y - c.y) < ρ) (h4 : (r.x - c.x) - (r.y - c.y) < ρ) :
    wind (Jordan.fromVertices (regular4 ρ c)).edges r = 1 := regular4_wind_inside ρ c r h1 h2 h3 h4

theorem regular4_centre (ρ : Rat) (c : Pt) (h : 0 < ρ) : wind (Jordan.fromVertices (regular4 ρ c)).edges c = 1 :=
  regular4_wind_inside ρ c c (by linarith) (by linarith) (by linarith) (by linarith)

theorem triangle_wind_interior (s : Rat) (c r : Pt)
    (h1 : c.x < r.x) (h2 : c.y < r.y) (h3 : (r.x - c.x) + (r.y - c.y) < s) :
    wind (Jordan.fromVertices (triangle s c)).edges r = 1 := triangle_wind_inside s c r h1 h2 h3

theorem triangle_inner_point (s : Rat) (c : Pt) (hs : 0 < s) :
    wind (Jordan.fromVertices (triangle s c)).edges (c + ⟨s / 4, s / 4⟩) = 1 :=
  triangle_wind_inside s c _ (by simp only [Pt.add_x]; linarith) (by simp only [Pt.add_y]; linarith)
    (by simp only [Pt.add_x, Pt.add_y]; linarith)

/-- hence these points are members (`memW`) of the primitive -/
theorem square_centre_mem (s : Rat) (c : Pt) (hs : 0 < s) : memW (Jordan.fromVertices (square s c)) c = true := by
  unfold memW
  rw [(square_ccw s c).mpr (ne_of_gt hs), if_pos rfl, square_centre s c hs]; rfl
theorem regular4_centre_mem (ρ : Rat) (c : Pt) (h : 0 < ρ) : memW (Jordan.fromVertices (regular4 ρ c)) c = true := by
  unfold memW
  rw [(regular4_ccw ρ c).mpr (ne_of_gt h), if_pos rfl, regular4_centre ρ c h]; rfl
theorem triangle_inner_mem (s : Rat) (c : Pt) (hs : 0 < s) :
    memW (Jordan.fromVertices (triangle s c)) (c + ⟨s / 4, s / 4⟩) = true := by
  unfold memW
  rw [(triangle_ccw s c).mpr (ne_of_gt hs), if_pos rfl, triangle_inner_point s c hs]; rfl

/-! ### the circle: quadratic arcs with `h = tan(θ/2)` -/
theorem cos_sin_unit (h : Rat) : (cosH h) ^ 2 + (sinH h) ^ 2 = 1 := by
  rw [sq, sq]; exact cosH_sq_add_sinH_sq h

/-- exact deviation of the first arc from the circle of radius `r` -/
theorem firstArc_deviation (r h t : Rat) :
    (evalSeg (firstArc r h) t).x ^ 2 + (evalSeg (firstArc r h) t).y ^ 2 - r ^ 2
      = 4 * h ^ 4 * r ^ 2 * t ^ 2 * (1 - t) ^ 2 / (1 + h ^ 2) := firstArc_radius r h t

/-- … and of EVERY arc `k` (exact rotations of the first) -/
theorem arc_deviation (r h : Rat) (k : Nat) (t : Rat) :
    (evalSeg (arc r h k) t).x ^ 2 + (evalSeg (arc r h k) t).y ^ 2 - r ^ 2
      = 4 * h ^ 4 * r ^ 2 * t ^ 2 * (1 - t) ^ 2 / (1 + h ^ 2) := arc_radius r h k t

/-- the arcs never enter the circle … -/
theorem arc_outside (r h : Rat) (k : Nat) (t : Rat) :
    r ^ 2 ≤ (evalSeg (arc r h k) t).x ^ 2 + (evalSeg (arc r h k) t).y ^ 2 := by
  rw [arc_eval, rotK_norm _ _ _ (cosH_sq_add_sinH_sq h)]; exact firstArc_outside r h t

/-- … and stay in the band `|C|² ≤ r² (1 + h⁴ / (4 (1 + h²)))` for parameters in [0,1] -/
theorem arc_band (r h : Rat) (k : Nat) (t : Rat) (h0 : 0 ≤ t) (h1 : t ≤ 1) :
    (evalSeg (arc r h k) t).x ^ 2 + (evalSeg (arc r h k) t).y ^ 2 ≤ r ^ 2 * (1 + h ^ 4 / (4 * (1 + h ^ 2))) := by
  rw [arc_eval, rotK_norm _ _ _ (cosH_sq_add_sinH_sq h)]; exact firstArc_band r h t h0 h1

/-- end points lie exactly on the circle -/
theorem arc_ends_on_circle (r h : Rat) (k : Nat) :
    (evalSeg (arc r h k) 0).x ^ 2 + (evalSeg (arc r h k) 0).y ^ 2 = r ^ 2 ∧
    (evalSeg (arc r h k) 1).x ^ 2 + (evalSeg (arc r h k) 1).y ^ 2 = r ^ 2 := by
  have h0 := arc_radius r h k 0
  have h1 := arc_radius r h k 1
  simp at h0 h1
  exact ⟨by linarith, by linarith⟩

/-- consecutive arcs join exactly -/
theorem arc_join (r h : Rat) (k : Nat) : evalSeg (arc r h k) 1 = evalSeg (arc r h (k + 1)) 0 := arc_chain r h k

/-- `∫ x dy` along the first arc, and the area of one sector (centre – arc – centre), the same for all `k`.
The model has no `∮ (x dy − y dx)/2`; the sector is expressed as a closed `Jordan` instead. -/
theorem firstArc_integral (r h : Rat) :
    exactVertical (firstArc r h) 1 0 = 2 * r ^ 2 * h * (3 + h ^ 2 + h ^ 4) / (3 * (1 + h ^ 2) ^ 2) :=
  firstArc_xdy r h

theorem sector_area (r h : Rat) (k : Nat) :
    Jordan.area [[⟨0, 0⟩, (arc r h k).headD Pt.zero], arc r h k, [(arc r h k).getLastD Pt.zero, ⟨0, 0⟩]]
      = h * r ^ 2 * (2 * h ^ 2 + 3) / (3 * (1 + h ^ 2)) := sector_area_k r h k

/-- `ndiv = 4` (`h = 1`): the four arcs close up exactly and enclose `10 r² / 3` -/
theorem circle4_closed (r : Rat) : evalSeg (arc r 1 3) 1 = evalSeg (arc r 1 0) 0 := Geom.circle4_closed r
theorem circle4_area (r : Rat) : Jordan.area [arc r 1 0, arc r 1 1, arc r 1 2, arc r 1 3] = 10 / 3 * r ^ 2 :=
  Geom.circle4_area r

/-! ### non-vacuity -/
example : Jordan.area (Jordan.fromVertices (square 3 ⟨1, -2⟩)) = 9 := by decide +kernel
example : wind (Jordan.fromVertices (regular4 (5/2) ⟨1, -2⟩)).edges ⟨1, -2⟩ = 1 := by decide +kernel
example : wind (Jordan.fromVertices (square 3 ⟨1, -2⟩)).edges ⟨10, -2⟩ = 0 := by decide +kernel
example : evalSeg (arc 5 (1/2) 2) (1/2) = ⟨-171/50, 369/100⟩ := by decide +kernel
example : evalSeg (arc 5 (1/2) 0) 1 = ⟨3, 4⟩ := by decide +kernel


/-! ### tie to the source: the vertex formulas regenerated from `Primitive.square/triangle/regular_polygon` on every run -/

/-- the vertex lists written in primitive.py are the model's (so every theorem above is about the formulas the code contains) -/
theorem translated_vertex_formulas (s : Rat) (c : Pt) :
    Gen.squareVertices s c = Primitive.square s c ∧ Gen.triangleVertices s c = Primitive.triangle s c ∧
    Gen.regular4Vertices s c = Primitive.regular4 s c := by
  refine ⟨?_, ?_, ?_⟩ <;> simp [Gen.squareVertices, Gen.triangleVertices, Gen.regular4Vertices, Primitive.square, Primitive.triangle, Primitive.regular4]

end ShapeVerif.C16
