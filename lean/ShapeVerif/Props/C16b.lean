/-
C16b — `Primitive.square` AS WRITTEN IN THE SOURCE (vertex formulas regenerated into `Gen/Tables.lean` on every run) has exactly the
measure of the square it documents: area s², centroid at the centre, and EVERY moment ∬ x^a y^b equal to the iterated integral over
[c.x − s/2, c.x + s/2] × [c.y − s/2, c.y + s/2] — for all rational sides, centres and all exponents (Proofs/SquareMomentGen.lean, on top of
the all-exponent edge integrals of Proofs/RectMomentGen.lean).  A change of a vertex formula in primitive.py that keeps the shape a
counter-clockwise quadrilateral but moves or resizes it breaks these equalities.
-/
import ShapeVerif.Props.C16
import ShapeVerif.Proofs.SquareMomentGen

namespace ShapeVerif.C16
open ShapeVerif

theorem source_square_every_moment (s : Rat) (c : Pt) (a b : Nat) :
    Jordan.moment (Jordan.fromVertices (Gen.squareVertices s c)) a b
      = ((c.x + s / 2) ^ (a + 1) - (c.x - s / 2) ^ (a + 1)) / ((a + 1 : Nat) : Rat)
        * (((c.y + s / 2) ^ (b + 1) - (c.y - s / 2) ^ (b + 1)) / ((b + 1 : Nat) : Rat)) :=
  source_square_moment_all s c a b

theorem source_square_has_area_s2 (s : Rat) (c : Pt) : Jordan.area (Jordan.fromVertices (Gen.squareVertices s c)) = s ^ 2 :=
  source_square_area s c

/-- the first moments are centre × area: the centroid of the primitive is the requested centre -/
theorem source_square_centroid_is_centre (s : Rat) (c : Pt) :
    Jordan.moment (Jordan.fromVertices (Gen.squareVertices s c)) 1 0 = c.x * s ^ 2 ∧
    Jordan.moment (Jordan.fromVertices (Gen.squareVertices s c)) 0 1 = c.y * s ^ 2 :=
  source_square_centroid s c

example : Jordan.moment (Jordan.fromVertices (Gen.squareVertices 3 ⟨1/2, -2⟩)) 2 3 = -225 / 2 := by
  rw [source_square_every_moment]; norm_num

end ShapeVerif.C16
