/-
C08 / C11 — operators and copies share no mutable state with their inputs; in-place operations leave
every other object intact.
Only property theorems here; helper lemmas are in Proofs/Heap.lean.
Quantifiers: every theorem is for ALL well-formed separated heaps and ALL operations (every variable,
every displacement/factor/angle, every split request), or for ALL histories `ops : List HeapOp`
started from the empty heap.  `op.target` is the variable an operation writes
(`poly v`, `move v`, `scale v`, `rot v`, `invert v`, `len v`, `split v` ↦ `v`; `copy d s`, `adopt d s` ↦ `d`).
-/
import ShapeVerif.Proofs.Heap
import ShapeVerif.Gen.Dispatch

namespace ShapeVerif.C08
open ShapeVerif Heap

/-! ### the invariants -/

theorem wf_init : Heap.init.WF := Heap.wf_init

/-- well-formedness is preserved by every operation -/
theorem wf_step {h : Heap} (op : HeapOp) (hw : h.WF) : (h.step op).1.WF := Heap.wf_step hw op

/-- separation (distinct variables own disjoint cells) is preserved by every operation -/
theorem sep_step {h : Heap} (op : HeapOp) (hw : h.WF) (hs : h.sep = true) : (h.step op).1.sep = true :=
  (sep_iff _).mpr (Sep_step hw ((sep_iff h).mp hs) op)

theorem wf_runOps (ops : List HeapOp) : (Heap.init.runOps ops).WF := (inv_runOps inv_init ops).wf

/-- after every history distinct variables own disjoint cells -/
theorem sep_runOps (ops : List HeapOp) : (Heap.init.runOps ops).sep = true :=
  (sep_iff _).mpr (inv_runOps inv_init ops).sep

/-! ### frame: an operation changes the geometry of its target only -/

/-- every operation leaves the geometry of every variable other than its target unchanged -/
theorem frame {h : Heap} (op : HeapOp) (w : Nat) (hw : h.WF) (hs : h.sep = true) (hne : op.target ≠ w) :
    ((h.step op).1.lookup w).map (h.step op).1.geom = (h.lookup w).map h.geom :=
  frame_step hw ((sep_iff h).mp hs) op hne

section instances
variable {h : Heap} (hw : h.WF) (hs : h.sep = true) {v w : Nat} (hne : v ≠ w)
include hw hs hne

theorem frame_move (d : Pt) :
    ((h.step (.move v d)).1.lookup w).map (h.step (.move v d)).1.geom = (h.lookup w).map h.geom :=
  frame (.move v d) w hw hs hne
theorem frame_scale (sx sy : Rat) :
    ((h.step (.scale v sx sy)).1.lookup w).map (h.step (.scale v sx sy)).1.geom = (h.lookup w).map h.geom :=
  frame (.scale v sx sy) w hw hs hne
theorem frame_rot (c s : Rat) :
    ((h.step (.rot v c s)).1.lookup w).map (h.step (.rot v c s)).1.geom = (h.lookup w).map h.geom :=
  frame (.rot v c s) w hw hs hne
theorem frame_invert :
    ((h.step (.invert v)).1.lookup w).map (h.step (.invert v)).1.geom = (h.lookup w).map h.geom :=
  frame (.invert v) w hw hs hne
theorem frame_len :
    ((h.step (.len v)).1.lookup w).map (h.step (.len v)).1.geom = (h.lookup w).map h.geom :=
  frame (.len v) w hw hs hne
theorem frame_split (pairs : List (Nat × Rat)) :
    ((h.step (.split v pairs)).1.lookup w).map (h.step (.split v pairs)).1.geom = (h.lookup w).map h.geom :=
  frame (.split v pairs) w hw hs hne
theorem frame_poly (vs : List Pt) :
    ((h.step (.poly v vs)).1.lookup w).map (h.step (.poly v vs)).1.geom = (h.lookup w).map h.geom :=
  frame (.poly v vs) w hw hs hne
/-- `copy d s` with destination `v`: every variable other than the destination keeps its geometry
(in particular the source) -/
theorem frame_copy (s : Nat) :
    ((h.step (.copy v s)).1.lookup w).map (h.step (.copy v s)).1.geom = (h.lookup w).map h.geom :=
  frame (.copy v s) w hw hs hne
theorem frame_adopt (s : Nat) :
    ((h.step (.adopt v s)).1.lookup w).map (h.step (.adopt v s)).1.geom = (h.lookup w).map h.geom :=
  frame (.adopt v s) w hw hs hne
end instances

/-- frame along a whole history: a variable that no operation of the history targets keeps its geometry -/
theorem frame_runOps {h : Heap} (w : Nat) (ops : List HeapOp) (hw : h.WF) (hs : h.sep = true)
    (hne : ∀ op ∈ ops, op.target ≠ w) :
    ((h.runOps ops).lookup w).map (h.runOps ops).geom = (h.lookup w).map h.geom := by
  induction ops generalizing h with
  | nil => rfl
  | cons op rest ih =>
    simp only [runOps]
    rw [ih (wf_step op hw) (sep_step op hw hs) (fun o ho => hne o (by simp [ho]))]
    exact frame op w hw hs (hne op (by simp))

/-! ### copies -/

/-- after `copy d s` the destination is value-equal to the source and the source is unchanged -/
theorem copy_geom {h : Heap} (d s : Nat) (c : HCurve) (hw : h.WF) (hs : h.sep = true)
    (hl : h.lookup s = some c) :
    ((h.step (.copy d s)).1.lookup d).map (h.step (.copy d s)).1.geom = some (h.geom c)
    ∧ ((h.step (.copy d s)).1.lookup s).map (h.step (.copy d s)).1.geom = some (h.geom c) := by
  have hd : ((h.step (.copy d s)).1.lookup d).map (h.step (.copy d s)).1.geom = some (h.geom c) := by
    rw [step_copy h d s c hl, lookup_setVar_self, geom_setVar, Option.map_some, geom_copyCurve]
  refine ⟨hd, ?_⟩
  by_cases e : d = s
  · subst e; exact hd
  · rw [frame_copy hw hs e s, hl]; rfl

/-- the same for the constructor that adopts (deep-copies) its argument -/
theorem adopt_geom {h : Heap} (d s : Nat) (c : HCurve) (hw : h.WF) (hs : h.sep = true)
    (hl : h.lookup s = some c) :
    ((h.step (.adopt d s)).1.lookup d).map (h.step (.adopt d s)).1.geom = some (h.geom c)
    ∧ ((h.step (.adopt d s)).1.lookup s).map (h.step (.adopt d s)).1.geom = some (h.geom c) := by
  have hd : ((h.step (.adopt d s)).1.lookup d).map (h.step (.adopt d s)).1.geom = some (h.geom c) := by
    rw [step_adopt h d s c hl, lookup_setVar_self, geom_setVar, Option.map_some, geom_copyCurve]
  refine ⟨hd, ?_⟩
  by_cases e : d = s
  · subst e; exact hd
  · rw [frame_adopt hw hs e s, hl]; rfl

/-- the copy owns fresh cells only: it shares no cell with the heap it was made in -/
theorem copy_fresh (h : Heap) (c : HCurve) :
    ∀ i ∈ (h.copyCurve c).2.segs.flatten, h.cells.length ≤ i := by
  intro i hi
  rcases ((upd_copy h 0 c).ids i hi).2 with ⟨_, _, _⟩ | hge
  · rw [copyCurve_eq] at hi
    simp only [List.mem_flatten, List.mem_map] at hi
    obtain ⟨_, ⟨s0, _, rfl⟩, his⟩ := hi
    simp only [List.mem_map] at his
    obtain ⟨j, _, rfl⟩ := his
    omega
  · exact hge

/-- mutating a copy never changes the original: after `copy d s`, ANY history of operations that do
not target `s` leaves the geometry of `s` as it was -/
theorem copy_then_mutate {h : Heap} (d s : Nat) (c : HCurve) (ops : List HeapOp) (hw : h.WF)
    (hs : h.sep = true) (hl : h.lookup s = some c) (hne : ∀ op ∈ ops, op.target ≠ s) :
    (((h.step (.copy d s)).1.runOps ops).lookup s).map ((h.step (.copy d s)).1.runOps ops).geom
      = some (h.geom c) := by
  rw [frame_runOps s ops (wf_step _ hw) (sep_step _ hw hs) hne]
  exact (copy_geom d s c hw hs hl).2

/-- mutating the original never changes a copy: after `copy d s`, ANY history of operations that do
not target `d` leaves the geometry of `d` equal to the geometry `s` had when the copy was made -/
theorem mutate_then_copy_intact {h : Heap} (d s : Nat) (c : HCurve) (ops : List HeapOp) (hw : h.WF)
    (hs : h.sep = true) (hl : h.lookup s = some c) (hne : ∀ op ∈ ops, op.target ≠ d) :
    (((h.step (.copy d s)).1.runOps ops).lookup d).map ((h.step (.copy d s)).1.runOps ops).geom
      = some (h.geom c) := by
  rw [frame_runOps d ops (wf_step _ hw) (sep_step _ hw hs) hne]
  exact (copy_geom d s c hw hs hl).1

/-! ### non-vacuity -/

def demo : List HeapOp :=
  [.poly 0 [⟨0, 0⟩, ⟨4, 0⟩, ⟨0, 4⟩], .copy 1 0, .move 1 ⟨10, 0⟩, .len 1, .split 1 [(0, 1/2), (2, 1/4)],
   .adopt 2 1, .rot 2 0 1, .invert 0]

/-- a history with a triangle, a copy, a move of the copy, a query, a split, an adopted copy, a
rotation and an inversion: three live variables owning 3 + 5 + 5 distinct cells, separated -/
example : (Heap.init.runOps demo).sep = true
    ∧ (Heap.init.runOps demo).cells.length = 13
    ∧ ((Heap.init.runOps demo).vars.map fun p => (p.1, (ids p.2).length)) = [(0, 3), (2, 5), (1, 5)] := by
  decide +kernel

/-- the conclusion of the frame theorem is not trivial: the move really changes its target … -/
example :
    let h := Heap.init.runOps [.poly 0 [⟨0, 0⟩, ⟨4, 0⟩, ⟨0, 4⟩], .copy 1 0]
    ((h.step (.move 1 ⟨10, 0⟩)).1.lookup 1).map (h.step (.move 1 ⟨10, 0⟩)).1.geom
        = some [[⟨10, 0⟩, ⟨14, 0⟩], [⟨14, 0⟩, ⟨10, 4⟩], [⟨10, 4⟩, ⟨10, 0⟩]]
    ∧ ((h.step (.move 1 ⟨10, 0⟩)).1.lookup 0).map (h.step (.move 1 ⟨10, 0⟩)).1.geom
        = some [[⟨0, 0⟩, ⟨4, 0⟩], [⟨4, 0⟩, ⟨0, 4⟩], [⟨0, 4⟩, ⟨0, 0⟩]] := by decide +kernel

/-- … and separation is a real hypothesis: a heap in which two variables alias the same cells is
well-formed, and there a move of one variable does change the other -/
def aliased : Heap := ⟨[⟨0, 0⟩, ⟨1, 0⟩], [(0, ⟨[[0, 1], [1, 0]], none⟩), (1, ⟨[[0, 1], [1, 0]], none⟩)]⟩

example : aliased.sep = false
    ∧ ((aliased.step (.move 0 ⟨5, 5⟩)).1.lookup 1).map (aliased.step (.move 0 ⟨5, 5⟩)).1.geom
        ≠ (aliased.lookup 1).map aliased.geom := by decide +kernel

example : aliased.WF := by
  refine ⟨by decide, ?_⟩
  intro v c hv i hi
  simp only [aliased, List.mem_cons, Prod.mk.injEq, List.not_mem_nil, or_false] at hv
  rcases hv with ⟨_, rfl⟩ | ⟨_, rfl⟩ <;> simp at hi <;> simp [aliased] <;> omega

/-! ### the operator layer (terms regenerated from shape.py on every run) -/

/-- every short-cut return of `DefinedShape.__or__/__and__` and every Empty/Whole operator hands out a
fresh object (`copy(…)`, a newly computed shape) or a singleton — never one of the operands itself
(`self` is allowed only for the Empty/Whole singletons, which are immutable) -/
theorem shortcut_results_fresh :
    (Gen.definedOr.guards.all fun gt => gt.2.isFresh) = true ∧
    (Gen.definedAnd.guards.all fun gt => gt.2.isFresh) = true ∧
    Gen.definedOr.onEmpty.isFresh = true ∧ Gen.definedAnd.onEmpty.isFresh = true ∧
    (Gen.emptyOps.all fun nt => nt.2.isFresh || nt.2 == .self) = true ∧
    (Gen.wholeOps.all fun nt => nt.2.isFresh || nt.2 == .self) = true := by decide

end ShapeVerif.C08
