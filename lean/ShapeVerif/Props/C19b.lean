/-
C19b — `DisjointShape([...])` collapses as documented BECAUSE of the order of its statements (regenerated from the source).

`Gen.disjointNewSteps` lists the statements of `DisjointShape.__new__` in source order; `runNewSteps` executes them on a list of
operands.  PROVED for the regenerated list, for ALL operand lists:
 * `source_new_is_model` — the constructor as written equals the model's `disjointNew` on lists of valid components (Simple / Connected /
   Empty entries): Empty entries are dropped FIRST, then zero remaining operands give the Empty singleton, one remaining operand is
   returned (as a copy) and two or more are built into a DisjointShape of the non-empty operands;
 * `source_new_drops_empty` — Empty entries never change the result: `DisjointShape(l) = DisjointShape(l without Empty)`;
 * `source_new_singleton`, `source_new_all_empty` — `[…Empty…, s, …Empty…] ↦ s`, `[Empty, …, Empty] ↦ Empty`.
A reordering that tests the length before dropping the Empty entries (each statement still correct by itself) changes the regenerated
list and breaks all three.
-/
import ShapeVerif.Props.C19
import ShapeVerif.Gen.Contain

namespace ShapeVerif.C19
open ShapeVerif

theorem source_new_steps : Gen.disjointNewSteps = [.removeEmpty, .zeroIsEmpty, .oneIsCopy, .build] := rfl

/-- Empty entries never change the result -/
theorem source_new_drops_empty (l : List Shape) :
    runNewSteps Gen.disjointNewSteps l = runNewSteps Gen.disjointNewSteps (l.filter fun s => !s.isEmptyS) := by
  simp only [Gen.disjointNewSteps, runNewSteps, List.filter_filter, Bool.and_self]

/-- the constructor as written, on any list: decided by the non-empty operands only -/
theorem source_new_cases (l : List Shape) :
    runNewSteps Gen.disjointNewSteps l =
      some (match l.filter (fun s => !s.isEmptyS) with
        | [] => .empty
        | [s] => s
        | a :: b :: t => .disjoint (sortBy compLt ((a :: b :: t).map Shape.compOf))) := by
  simp only [Gen.disjointNewSteps, runNewSteps]
  cases h : l.filter (fun s => !s.isEmptyS) with
  | nil => simp
  | cons a t =>
    cases t with
    | nil => simp
    | cons b t' => simp

/-- … which is the model's `disjointNew` whenever every non-empty operand is a valid component -/
theorem source_new_is_model (l : List Shape) (h : ∀ s ∈ l, s.isEmptyS = true ∨ s.isComp = true) :
    runNewSteps Gen.disjointNewSteps l = some (disjointNew l) := by
  rw [source_new_cases]
  unfold disjointNew
  have hf : ∀ s ∈ l.filter (fun s => !s.isEmptyS), s.isComp = true := by
    intro s hs
    rw [List.mem_filter] at hs
    rcases h s hs.1 with he | hc
    · simp [he] at hs
    · exact hc
  cases hl : l.filter (fun s => !s.isEmptyS) with
  | nil => rfl
  | cons a t =>
    rw [hl] at hf
    cases t with
    | nil => simp [hf a (by simp)]
    | cons b t' =>
      have : (a :: b :: t').all Shape.isComp = true := List.all_eq_true.mpr hf
      simp [this]

theorem source_new_singleton (s : Shape) (hs : s.isEmptyS = false) (pre post : List Shape)
    (hpre : ∀ x ∈ pre, x.isEmptyS = true) (hpost : ∀ x ∈ post, x.isEmptyS = true) :
    runNewSteps Gen.disjointNewSteps (pre ++ s :: post) = some s := by
  rw [source_new_cases]
  have h1 : pre.filter (fun s => !s.isEmptyS) = [] := by
    rw [List.filter_eq_nil_iff]; intro x hx; simp [hpre x hx]
  have h2 : post.filter (fun s => !s.isEmptyS) = [] := by
    rw [List.filter_eq_nil_iff]; intro x hx; simp [hpost x hx]
  simp [List.filter_append, h1, h2, hs]

theorem source_new_all_empty (l : List Shape) (h : ∀ x ∈ l, x.isEmptyS = true) :
    runNewSteps Gen.disjointNewSteps l = some .empty := by
  rw [source_new_cases]
  have : l.filter (fun s => !s.isEmptyS) = [] := by
    rw [List.filter_eq_nil_iff]; intro x hx; simp [h x hx]
  rw [this]

/-! non-vacuity -/
def sqA : Shape := .simple (Jordan.fromVertices [⟨0,0⟩, ⟨1,0⟩, ⟨1,1⟩, ⟨0,1⟩])
def sqB : Shape := .simple (Jordan.fromVertices [⟨3,0⟩, ⟨5,0⟩, ⟨5,2⟩, ⟨3,2⟩])
example : runNewSteps Gen.disjointNewSteps [.empty, sqA, .empty] = some sqA := by decide +kernel
example : runNewSteps Gen.disjointNewSteps [.empty, .empty] = some .empty := by decide +kernel
example : (runNewSteps Gen.disjointNewSteps [sqA, .empty, sqB]).map Shape.kind = some 4 := by decide +kernel

end ShapeVerif.C19
