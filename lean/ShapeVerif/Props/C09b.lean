/-
C09b — `Point2D.move` and `Point2D.scale` as written in the SOURCE (regenerated into `Gen/Arith.lean` on every run)
are the affine maps the heap-level theorems of C09 apply to every cell: translation by the vector, axis scaling by the two
factors; they compose and invert as the maps do.
-/
import ShapeVerif.Props.C09
import ShapeVerif.Gen.Arith

namespace ShapeVerif.C09
open ShapeVerif

theorem source_move_is_translation (p v : Pt) : Gen.ptMove p v = ⟨p.x + v.x, p.y + v.y⟩ := by
  simp only [Gen.ptMove]; try grind

theorem source_scale_is_axis_scaling (p : Pt) (sx sy : Rat) : Gen.ptScale p sx sy = ⟨p.x * sx, p.y * sy⟩ := by
  simp only [Gen.ptScale]; try grind

theorem source_move_is_model : Gen.ptMove = Pt.move := by
  funext p v; rw [source_move_is_translation]; rfl

theorem source_scale_is_model : Gen.ptScale = Pt.scale := by
  funext p a b; rw [source_scale_is_axis_scaling]; rfl

/-- moving back restores the point exactly -/
theorem source_move_roundtrip (p d : Pt) : Gen.ptMove (Gen.ptMove p d) d.neg = p := by
  rw [source_move_is_model]; exact move_neg p d

/-- scaling by the reciprocal factors restores the point exactly -/
theorem source_scale_roundtrip (p : Pt) (a b : Rat) (ha : a ≠ 0) (hb : b ≠ 0) :
    Gen.ptScale (Gen.ptScale p a b) (1 / a) (1 / b) = p := by
  rw [source_scale_is_model]; exact scale_inv p a b ha hb

/-- two moves compose to the move by the sum -/
theorem source_move_move (p d e : Pt) : Gen.ptMove (Gen.ptMove p d) e = Gen.ptMove p (d + e) := by
  rw [source_move_is_model]
  show (⟨p.x + d.x + e.x, p.y + d.y + e.y⟩ : Pt) = ⟨p.x + (d.x + e.x), p.y + (d.y + e.y)⟩
  rw [Rat.add_assoc, Rat.add_assoc]

example : Gen.ptMove ⟨1/2, 3⟩ ⟨-1, 1/3⟩ = ⟨-1/2, 10/3⟩ := by decide +kernel
example : Gen.ptScale ⟨1/2, 3⟩ 4 (-1/3) = ⟨2, -1⟩ := by decide +kernel

end ShapeVerif.C09
