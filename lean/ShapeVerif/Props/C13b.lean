/-
C13b — the exact kernels of polygon.py as written in the SOURCE (regenerated into `Gen/Arith.lean` on every run) are
polynomial maps over the rationals: `Point2D.inner`, `Point2D.cross`, `Point2D.move`, `Point2D.scale` contain no
division, no rounding and no float literal, so rational operands give the exact rational result (the generated terms have
type `Rat` and are proved equal to the model's closed forms on ALL inputs).
-/
import ShapeVerif.Props.C13
import ShapeVerif.Gen.Arith
import ShapeVerif.Props.C14b
import ShapeVerif.Props.C12

namespace ShapeVerif.C13
open ShapeVerif

theorem source_inner_is_model : Gen.inner = Pt.inner := by
  funext p q; simp only [Gen.inner, Pt.inner]; try grind

theorem source_cross_is_model : Gen.cross = Pt.cross := by
  funext p q; simp only [Gen.cross, Pt.cross]; try grind

theorem source_move_is_model : Gen.ptMove = Pt.move := by
  funext p v; simp only [Gen.ptMove, Pt.move]; try grind

theorem source_scale_is_model : Gen.ptScale = Pt.scale := by
  funext p a b; simp only [Gen.ptScale, Pt.scale]; try grind

/-- closed forms of the source kernels, for all rational points -/
theorem source_inner_formula (p q : Pt) : Gen.inner p q = p.x * q.x + p.y * q.y := by
  rw [source_inner_is_model]; rfl
theorem source_cross_formula (p q : Pt) : Gen.cross p q = p.x * q.y - p.y * q.x := by
  rw [source_cross_is_model]; rfl

/-- the cross product of the source is antisymmetric and vanishes on parallel vectors; the inner product is symmetric -/
theorem source_cross_antisymm (p q : Pt) : Gen.cross p q = - Gen.cross q p := by
  rw [source_cross_formula, source_cross_formula]; ring
theorem source_cross_self (p : Pt) : Gen.cross p p = 0 := by
  rw [source_cross_formula]; ring
theorem source_inner_symm (p q : Pt) : Gen.inner p q = Gen.inner q p := by
  rw [source_inner_formula, source_inner_formula]; ring
theorem source_inner_self_nonneg (p : Pt) : 0 ≤ Gen.inner p p := by
  rw [source_inner_formula]; nlinarith [mul_self_nonneg p.x, mul_self_nonneg p.y]

/-- Lagrange's identity: |p|²|q|² = ⟨p,q⟩² + (p×q)² — the identity behind the projection / distance tests -/
theorem source_lagrange_identity (p q : Pt) :
    Gen.inner p p * Gen.inner q q = Gen.inner p q ^ 2 + Gen.cross p q ^ 2 := by
  simp only [source_inner_formula, source_cross_formula]; ring

/-- the crossing parameters of two straight edges AS COMPUTED BY THE SOURCE are the exact rational solution, decided by exact comparisons
(`denom ≠ 0`, `0 ≤ u ≤ 1`) — no tolerance, no rounding: whenever the source reports `(u, v)` the point `A(u) = B(v)` holds exactly, and every
exact transversal crossing is reported (restated from C14b so that a tolerance creeping into `Intersection.lines` also breaks C13) -/
theorem source_crossing_parameters_exact (a0 a1 b0 b1 : Pt) (u v : Rat) :
    Gen.linesInter a0 a1 b0 b1 = some (u, v) ↔
      Pt.cross (a1 - a0) (b1 - b0) ≠ 0 ∧ lerp a0 a1 u = lerp b0 b1 v ∧ 0 ≤ u ∧ u ≤ 1 ∧ 0 ≤ v ∧ v ≤ 1 :=
  C14.source_lines_iff a0 a1 b0 b1 u v

/-- … and they do not depend on the unit of length -/
theorem source_crossing_parameters_scale_free (a0 a1 b0 b1 : Pt) (k : Rat) (hk : k ≠ 0) :
    Gen.linesInter (a0.scale k k) (a1.scale k k) (b0.scale k k) (b1.scale k k) = Gen.linesInter a0 a1 b0 b1 := by
  rw [C14.source_lines_is_model]
  exact C12.linesInter_scale a0 a1 b0 b1 k k hk hk

example : Gen.cross ⟨1/3, 2⟩ ⟨5, -7/2⟩ = -67/6 := by decide +kernel
example : Gen.inner ⟨1/3, 2⟩ ⟨5, -7/2⟩ = -16/3 := by decide +kernel

end ShapeVerif.C13
