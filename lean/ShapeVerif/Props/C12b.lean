/-
C12b — the comparison kernels of polygon.py as written in the SOURCE (regenerated into `Gen/Arith.lean` on every run):
which of them are unit-free and which are not.

 * `Intersection.lines` (exact solver for straight pairs) has no tolerance: translation, non-zero scaling and rotation
   of all four end points leave the reported parameters unchanged — stated here about the GENERATED function.
 * `Point2D.__eq__`, `Box.__contains__` compare against ABSOLUTE constants (1e-9, 1e-6): they equal the model's
   `Pt.eqTol`, `Box.containsTol`, and explicit witnesses show that their verdict changes under uniform scaling —
   the mechanism behind findings K1 / K6 (DESIGN §14.6); the theorems say where the unit-dependence of the code comes
   from and where it cannot come from.
 * `Box.__and__` (`is None` ⇔ the boxes are disjoint) has no margin: exactly scale-free.
-/
import ShapeVerif.Props.C12
import ShapeVerif.Props.C14b

namespace ShapeVerif.C12
open ShapeVerif

/-- `Point2D.__eq__` as written in the source is the model's absolute 1e-9 comparison -/
theorem source_ptEq_is_model : Gen.ptEq = Pt.eqTol := by
  funext p q; simp only [Gen.ptEq, Pt.eqTol, tol9]; grind

/-- `Box.__contains__` as written in the source is the model's test with absolute 1e-6 margins -/
theorem source_boxContains_is_model (b : Box) (p : Pt) : Gen.boxContains b.lo b.hi p = b.containsTol p := by
  simp only [Gen.boxContains, Box.containsTol, tol6]; grind

/-- `Box.__and__(…) is None` as written in the source is the model's margin-free disjointness test -/
theorem source_boxDisjoint_is_model (a b : Box) : Gen.boxDisjoint a.lo a.hi b.lo b.hi = a.disjoint b := by
  simp only [Gen.boxDisjoint, Box.disjoint]; grind

/-- the exact line solver of the source is invariant under translation … -/
theorem source_lines_translate (a0 a1 b0 b1 d : Pt) :
    Gen.linesInter (a0.move d) (a1.move d) (b0.move d) (b1.move d) = Gen.linesInter a0 a1 b0 b1 := by
  rw [C14.source_lines_is_model]; exact linesInter_translate a0 a1 b0 b1 d

/-- … under every non-zero (even non-uniform) scaling … -/
theorem source_lines_scale (a0 a1 b0 b1 : Pt) (sx sy : Rat) (hx : sx ≠ 0) (hy : sy ≠ 0) :
    Gen.linesInter (a0.scale sx sy) (a1.scale sx sy) (b0.scale sx sy) (b1.scale sx sy) = Gen.linesInter a0 a1 b0 b1 := by
  rw [C14.source_lines_is_model]; exact linesInter_scale a0 a1 b0 b1 sx sy hx hy

/-- … and under every exact rotation (any similarity `c² + s² ≠ 0`) -/
theorem source_lines_rot (a0 a1 b0 b1 : Pt) (c s : Rat) (h : c * c + s * s ≠ 0) :
    Gen.linesInter (a0.rot c s) (a1.rot c s) (b0.rot c s) (b1.rot c s) = Gen.linesInter a0 a1 b0 b1 := by
  rw [C14.source_lines_is_model]; exact linesInter_rot a0 a1 b0 b1 c s h

/-- box disjointness of the source is invariant under uniform positive scaling (no margin involved) -/
theorem source_boxDisjoint_scale (alo ahi blo bhi : Pt) (k : Rat) (hk : 0 < k) :
    Gen.boxDisjoint (alo.scale k k) (ahi.scale k k) (blo.scale k k) (bhi.scale k k) = Gen.boxDisjoint alo ahi blo bhi := by
  simp only [Gen.boxDisjoint, Pt.scale]
  have e : ∀ a b : Rat, (a * k < b * k) = (a < b) := fun a b => by
    simp only [eq_iff_iff]; exact mul_lt_mul_iff_of_pos_right hk
  have m : ∀ (a b c d : Rat) (p : Prop) [Decidable p], (if p then a * k else b * k) = (if p then a else b) * k := by
    intro a b c d p _; split <;> rfl
  simp only [e]
  grind

/-- `Point2D.__eq__` is NOT unit-free: two points 1e-9/2 apart are "equal", the same drawing a million times larger is not -/
theorem source_ptEq_not_scale_free :
    ∃ (p q : Pt) (k : Rat), 0 < k ∧ Gen.ptEq p q = true ∧ Gen.ptEq (p.scale k k) (q.scale k k) = false :=
  ⟨⟨0, 0⟩, ⟨1 / 4000000000, 0⟩, 1000000, by decide +kernel⟩

/-- `Box.__contains__` is NOT unit-free either: its 1e-6 margin admits a point at distance 5e-7 from a unit box, and rejects
the corresponding point of the same drawing scaled by 1000 -/
theorem source_boxContains_not_scale_free :
    ∃ (lo hi p : Pt) (k : Rat), 0 < k ∧ Gen.boxContains lo hi p = true ∧
      Gen.boxContains (lo.scale k k) (hi.scale k k) (p.scale k k) = false :=
  ⟨⟨0, 0⟩, ⟨1, 1⟩, ⟨1 + 1 / 2000000, 1 / 2⟩, 1000, by decide +kernel⟩

end ShapeVerif.C12
