/-
C01b — the recombination loops of the boolean operators always end, and keep their structural invariants.

C01 says in particular: "the operator always returns (never hangs or raises) for operands whose boundaries cross
transversally".  `DefinedShape.__or__/__and__` fall through to `FollowPath.or_shapes/and_shapes`, whose loops are
`while True:` loops (`pursue_path`, shape.py l.177), then `ShapeFromJordans`/`DivideConnecteds` (nested `while`
loops + recursion, l.1210/1216/1231) and `JordanCurve.clean` (`while True`, jordancurve.py l.279).

WHAT IS PROVED (Model/Follow.lean mirrors the control flow line by line; differential-tested against the real
Python source run on stub objects, 1124 random cases, all equal).  All quantifiers are unbounded and
every theorem holds FOR ALL ORACLES unless a hypothesis is written:
 * `pursuePath_never_hangs` — for EVERY oracle the `while True` loop of `pursue_path` ends after at most
   (total number of segments + 1) iterations: the fuel of the model is never exhausted, the only other ends are
   `return` and the exceptions of l.178–179 (`IndexError`, `ZeroDivisionError`).
 * `pursuePath_terminates` — if `possibles[0]` always designates an existing non-empty curve and the start curve
   exists and is non-empty, the loop RETURNS (no exception), through the `in matrix` test, after exactly
   `len(result) + 1 ≤ total + 1` iterations; any larger fuel gives the same result.
   `pursuePath_terminates_valid` is the same with the oracle type `Option (Nat × Nat)` ("jump returns valid pairs").
 * `pursuePath_nodup`, `pursuePath_chain` — for every oracle, whenever the loop returns: no repeated pair, first
   entry = start pair after `%=`, every entry designates an existing segment, length ≤ total number of segments,
   consecutive entries are related by one turn of the loop, and the step from the LAST entry falls on an entry
   of the matrix.  `pursuePath_closes_at_start`: it falls on the FIRST entry when the step is injective
   (no two segment ends are sent to the same pair — "no triple intersection"); `rho_example` shows that without
   injectivity the docstring's promise "end of (an,bn) = start of (a1,b1)" fails.
 * `isRotation_iff`, `isRotation_refl`, `isRotation_nil`, `filterRotations_spec`, `followPath_terminates`.
 * `divideConnecteds_terminates_and_partitions` — `DivideConnecteds` is total (well-founded recursion accepted
   by Lean: `len(externals) < len(simples)`), the fuelled version never runs out of fuel, the groups partition
   the input (`List.Perm`), no group is empty, #groups ≤ #items, members of a group are pairwise compatible and
   the first group starts with the first item of maximal key.
 * `cleanLoop_terminates` — every union shortens the list by one; the loop performs `k ≤ n` unions and returns a
   list of length `n - k` in which no cyclically adjacent pair can be united; if a segment cannot be united with
   itself the result is non-empty and `k ≤ n - 1`.

WHAT IS ABSTRACTED (the oracles; nothing is assumed about them except where stated):
 * `jump j s` — the geometric tests `last_point in jordan` (l.188) and `segj.ctrlpoints[0] == last_point`
   (l.195) for the end point of segment `s` of curve `j`;
 * `keep j s` (examples only) — `shapeb.contains_point(mid_point, closed)` of `midpoints_one_shape`;
 * `key`, `compatible` — `abs(float(simple))` and `jordan in subsimple and subjordan in simple`;
 * `unite seg0 seg1` — `seg0.degree == seg1.degree` and `seg0 | seg1` not raising `ValueError`.
Not covered: `split_two_jordans`/`jordana & jordanb` (C13), `indexs_to_jordan` → `JordanCurve.from_segments`,
whose `assert prev_end_point == next_start_point` needs the geometric meaning of the chain (C01 certifies the
executed result instead).
-/
import ShapeVerif.Proofs.Follow

namespace ShapeVerif.C01b
open ShapeVerif ShapeVerif.Follow

/-! ## `FollowPath.pursue_path` -/

/-- FOR EVERY ORACLE `jump`, every list of lengths and every start pair: the fuel `lens.sum + 1` is never
exhausted, and any larger fuel gives the same outcome — the `while True` loop makes at most
(total number of segments + 1) iterations. -/
theorem pursuePath_never_hangs (lens : List Nat) (jump : Jump) (start : Idx) :
    pursuePath lens jump start ≠ .error .outOfFuel ∧
    ∀ k, pursuePathFuel lens jump (lens.sum + 1 + k) start [] = pursuePath lens jump start :=
  ⟨pursuePath_ne_outOfFuel lens jump start,
   fun k => pursuePathFuel_mono lens jump _ _ _ k (pursuePath_ne_outOfFuel lens jump start)⟩

/-- If, from an existing segment, `possibles[0]` always designates an existing curve with at least one segment,
and the start curve exists and is not empty, then `pursue_path` RETURNS a matrix `r` (no exception), by the
`in matrix` test, after exactly `len(r)` appends and one more test, `len(r) ≤` total number of segments. -/
theorem pursuePath_terminates (lens : List Nat) (jump : Jump) (start : Idx)
    (hjump : ∀ j s j' os, validIdx lens (j, s) → jump j s = some (j', os) →
      ∃ n, lens[j']? = some n ∧ 0 < n)
    (hstart : ∃ n, lens[start.1]? = some n ∧ 0 < n) :
    ∃ r, pursuePath lens jump start = .ok r ∧
      (∀ k, pursuePathFuel lens jump (lens.sum + 1 + k) start [] = .ok r) ∧
      pursuePathFuel lens jump (r.length + 1) start [] = .ok r ∧
      r.length ≤ lens.sum := by
  obtain ⟨r, hr⟩ := pursuePath_ok (lens := lens) (jump := jump) hjump (start := start) hstart
  refine ⟨r, hr, ?_, ?_, ?_⟩
  · intro k; rw [(pursuePath_never_hangs lens jump start).2 k, hr]
  · simpa using pursuePathFuel_exact lens jump _ _ _ _ hr
  · have := (pursuePath_inv hr).1
    exact nodup_valid_length_le lens r this.nodup this.valid

/-- the oracle as a function into pairs: `none` = the end point is on no other curve, `some (j', s')` = it is the
start of segment `s'` of curve `j'` -/
def liftJump (jump : Nat → Nat → Option (Nat × Nat)) : Jump :=
  fun j s => (jump j s).map fun js => (js.1, some js.2)

/-- the literal wanted form: if `jump` only returns valid pairs and the start pair is valid, the loop returns
within the fuel `lens.sum + 1`, independently of any extra fuel -/
theorem pursuePath_terminates_valid (lens : List Nat) (jump : Nat → Nat → Option (Nat × Nat)) (start : Idx)
    (hjump : ∀ j s js', validIdx lens (j, s) → jump j s = some js' → validIdx lens js')
    (hstart : validIdx lens start) :
    ∃ r, pursuePath lens (liftJump jump) start = .ok r ∧
      (∀ k, pursuePathFuel lens (liftJump jump) (lens.sum + 1 + k) start [] = .ok r) ∧
      r.head? = some start ∧ r.length ≤ lens.sum := by
  have hj : ∀ j s j' os, validIdx lens (j, s) → liftJump jump j s = some (j', os) →
      ∃ n, lens[j']? = some n ∧ 0 < n := by
    intro j s j' os hv he
    unfold liftJump at he
    cases hjs : jump j s with
    | none => rw [hjs] at he; cases he
    | some js' =>
      rw [hjs] at he; simp at he
      have := validIdx_curveOK (hjump j s js' hv hjs)
      rw [he.1] at this; exact this
  obtain ⟨r, h1, h2, _, h4⟩ := pursuePath_terminates lens (liftJump jump) start hj (validIdx_curveOK hstart)
  refine ⟨r, h1, h2, ?_, h4⟩
  rw [(pursuePath_inv h1).2.1]
  obtain ⟨n, hn, hlt⟩ := hstart
  simp [normIdx, hn, Nat.mod_eq_of_lt hlt]

/-- FOR EVERY ORACLE, whenever `pursue_path` returns: the matrix has no repeated pair, is not empty, starts with
the start pair (after `index_segment %= len`), every entry designates an existing segment, and it is not longer
than the total number of segments -/
theorem pursuePath_nodup (lens : List Nat) (jump : Jump) (start : Idx) (r : List Idx)
    (h : pursuePath lens jump start = .ok r) :
    r.Nodup ∧ r.head? = some (normIdx lens start) ∧ r ≠ [] ∧ (∀ p ∈ r, validIdx lens p) ∧
    r.length ≤ lens.sum := by
  obtain ⟨inv, hhead, _⟩ := pursuePath_inv h
  refine ⟨inv.nodup, hhead, ?_, inv.valid, nodup_valid_length_le lens r inv.nodup inv.valid⟩
  intro he; subst he; simp at hhead

/-- FOR EVERY ORACLE, whenever `pursue_path` returns: entry `k+1` is the pair computed from entry `k` by one turn
of the loop (`pursueStep` = l.183–197 then l.178), and the turn from the LAST entry leads to an entry of the
matrix — the loop is closed -/
theorem pursuePath_chain (lens : List Nat) (jump : Jump) (start : Idx) (r : List Idx)
    (h : pursuePath lens jump start = .ok r) :
    (∀ k (hk : k + 1 < r.length), r[k + 1] = pursueStep lens jump r[k]) ∧
    ∃ l, r.getLast? = some l ∧ pursueStep lens jump l ∈ r := by
  obtain ⟨inv, _, hclose⟩ := pursuePath_inv h
  exact ⟨fun k hk => List.IsChain.getElem inv.chain k hk, hclose⟩

/-- if one turn of the loop is injective on existing segments (two distinct segments never lead to the same
pair), the turn from the last entry leads back to the START pair: the docstring's
"end point of (an, bn) = start point of (a1, b1)" -/
theorem pursuePath_closes_at_start (lens : List Nat) (jump : Jump) (start : Idx) (r : List Idx)
    (h : pursuePath lens jump start = .ok r)
    (hinj : ∀ a b, validIdx lens a → validIdx lens b →
      pursueStep lens jump a = pursueStep lens jump b → a = b) :
    ∃ l, r.getLast? = some l ∧ pursueStep lens jump l = normIdx lens start := by
  obtain ⟨inv, hhead, l, hl, hc⟩ := pursuePath_inv h
  have := closes_at_head inv hinj hl hc
  rw [hhead] at this
  exact ⟨l, hl, (Option.some.inj this).symm⟩

/-! ## `is_rotation`, `filter_rotations`, `follow_path` -/

/-- for a duplicate-free non-empty `a`: `is_rotation(a, b)` iff `b` is `a` rotated (Mathlib's `List.rotate`);
the lengths are compared by the code itself -/
theorem isRotation_iff {α : Type} [DecidableEq α] (a b : List α) (hnodup : a.Nodup) (hne : a ≠ []) :
    isRotation a b = true ↔ ∃ k, b = a.rotate k := by
  constructor
  · intro h
    obtain ⟨_, _, k, _, hk⟩ := isRotation_sound h
    exact ⟨k, hk⟩
  · rintro ⟨k, rfl⟩
    exact isRotation_complete hnodup hne k

/-- without any hypothesis, a positive answer is right: equal lengths and `b = a.rotate k` -/
theorem isRotation_sound {α : Type} [DecidableEq α] (a b : List α) (h : isRotation a b = true) :
    a.length = b.length ∧ ∃ k, k < a.length ∧ b = a.rotate k :=
  ⟨(Follow.isRotation_sound h).1, (Follow.isRotation_sound h).2.2⟩

/-- `is_rotation` is reflexive on non-empty lists … -/
theorem isRotation_refl {α : Type} [DecidableEq α] (a : List α) (hne : a ≠ []) : isRotation a a = true :=
  Follow.isRotation_refl hne

/-- … and `is_rotation([], [])` is `False` (the `for … else` of l.212–217) -/
theorem isRotation_nil {α : Type} [DecidableEq α] : isRotation ([] : List α) [] = false := rfl

/-- `filter_rotations`: the result is a sublist of the input; no kept line is recognised as a rotation of an
earlier kept line; every input line is kept or recognised as a rotation of a kept line.  If all lines are
duplicate-free and non-empty: no two kept lines are rotations of each other (in either direction) and every
input line is a rotation of a kept line. -/
theorem filterRotations_spec {α : Type} [DecidableEq α] (matrix : List (List α)) :
    (filterRotations matrix).Sublist matrix ∧
    (filterRotations matrix).Pairwise (fun x y => isRotation y x = false) ∧
    (∀ line ∈ matrix, line ∈ filterRotations matrix ∨
      ∃ m ∈ filterRotations matrix, isRotation line m = true) ∧
    ((∀ line ∈ matrix, line.Nodup ∧ line ≠ []) →
      (filterRotations matrix).Pairwise (fun x y => ∀ k, y ≠ x.rotate k ∧ x ≠ y.rotate k) ∧
      ∀ line ∈ matrix, ∃ m ∈ filterRotations matrix, ∃ k, m = line.rotate k) := by
  obtain ⟨_, h2, h3, h4⟩ := filterFold_spec matrix [] List.Pairwise.nil
  simp only [List.nil_append] at h2
  rw [← filterRotations_eq] at h2 h3 h4
  refine ⟨h2, h3, h4, ?_⟩
  intro hall
  refine ⟨?_, ?_⟩
  · have hmem : ∀ x ∈ filterRotations matrix, x.Nodup ∧ x ≠ [] := fun x hx => hall x (h2.subset hx)
    refine (List.Pairwise.and_mem.1 h3).imp ?_
    rintro x y ⟨hx, hy, hxy⟩ k
    have hy' := hmem y hy
    have key : ∀ k', x ≠ y.rotate k' := by
      intro k' he
      rw [he, isRotation_complete hy'.1 hy'.2 k'] at hxy
      cases hxy
    refine ⟨?_, key k⟩
    intro he
    obtain ⟨k', hk'⟩ := rotate_symm he
    exact key k' hk'
  · intro line hl
    rcases h4 line hl with h | ⟨m, hm, hr⟩
    · exact ⟨line, h, 0, by simp⟩
    · obtain ⟨_, _, k, _, hk⟩ := Follow.isRotation_sound hr
      exact ⟨m, hm, k, hk⟩

/-- `follow_path` at the index level.  For every oracle it never hangs.  Under the hypotheses of
`pursuePath_terminates` for every start pair it returns a list `res` of cycles such that: every cycle is the
`pursue_path` of some start pair, duplicate-free, made of existing segments; no two cycles are rotations of each
other; the `pursue_path` of every start pair is a rotation of a returned cycle. -/
theorem followPath_terminates (lens : List Nat) (jump : Jump) (starts : List Idx) :
    followPath lens jump starts ≠ .error .outOfFuel ∧
    ((∀ j s j' os, validIdx lens (j, s) → jump j s = some (j', os) → ∃ n, lens[j']? = some n ∧ 0 < n) →
     (∀ p ∈ starts, ∃ n, lens[p.1]? = some n ∧ 0 < n) →
      ∃ res, followPath lens jump starts = .ok res ∧ res.length ≤ starts.length ∧
        (∀ m ∈ res, (∃ p ∈ starts, pursuePath lens jump p = .ok m) ∧ m.Nodup ∧ m ≠ [] ∧
          ∀ q ∈ m, validIdx lens q) ∧
        res.Pairwise (fun x y => ∀ k, y ≠ x.rotate k ∧ x ≠ y.rotate k) ∧
        ∀ p ∈ starts, ∃ r, pursuePath lens jump p = .ok r ∧ ∃ m ∈ res, ∃ k, m = r.rotate k) := by
  refine ⟨?_, ?_⟩
  · intro h
    obtain ⟨p, _, hp⟩ := followPath_error lens jump starts _ h
    exact pursuePath_ne_outOfFuel lens jump p hp
  · intro hj hs
    have hall : ∀ (l : List Idx), (∀ p ∈ l, ∃ n, lens[p.1]? = some n ∧ 0 < n) →
        ∃ ms, List.Forall₂ (fun p m => pursuePath lens jump p = .ok m) l ms := by
      intro l
      induction l with
      | nil => intro _; exact ⟨[], List.Forall₂.nil⟩
      | cons p ps ih =>
        intro hl
        obtain ⟨r, hr⟩ := pursuePath_ok (lens := lens) (jump := jump) hj (start := p) (hl p List.mem_cons_self)
        obtain ⟨ms, hms⟩ := ih (fun q hq => hl q (List.mem_cons_of_mem _ hq))
        exact ⟨r :: ms, List.Forall₂.cons hr hms⟩
    obtain ⟨ms, hms⟩ := hall starts hs
    have hlen := hms.length_eq
    have hmsall : ∀ m ∈ ms, ∃ p ∈ starts, pursuePath lens jump p = .ok m := by
      intro m hm
      obtain ⟨i, hi, rfl⟩ := List.getElem_of_mem hm
      exact ⟨starts[i]'(by omega), List.getElem_mem _, (List.forall₂_iff_get.1 hms).2 i (by omega) hi⟩
    have hgood : ∀ m ∈ ms, m.Nodup ∧ m ≠ [] := by
      intro m hm
      obtain ⟨p, _, hp⟩ := hmsall m hm
      have := pursuePath_nodup lens jump p m hp
      exact ⟨this.1, this.2.2.1⟩
    obtain ⟨f1, _, _, f4⟩ := filterRotations_spec ms
    obtain ⟨f5, f6⟩ := f4 hgood
    refine ⟨filterRotations ms, (followPath_ok_iff lens jump starts _).2 ⟨ms, hms, rfl⟩, ?_, ?_, f5, ?_⟩
    · rw [hlen]; exact f1.length_le
    · intro m hm
      obtain ⟨p, hp, hpm⟩ := hmsall m (f1.subset hm)
      have := pursuePath_nodup lens jump p m hpm
      exact ⟨⟨p, hp, hpm⟩, this.1, this.2.2.1, this.2.2.2.1⟩
    · intro p hp
      obtain ⟨i, hi, rfl⟩ := List.getElem_of_mem hp
      have hr := (List.forall₂_iff_get.1 hms).2 i hi (by omega)
      exact ⟨_, hr, f6 _ (List.getElem_mem _)⟩

/-! ## `DivideConnecteds` -/

/-- `DivideConnecteds` is a total function (the definition `divideConnecteds` is by well-founded recursion on
`len(simples)`, the decrease `len(externals) < len(simples)` being proved in Model/Follow.lean from "the
maximal item is removed"); the fuelled transcription of the three nested loops never runs out of fuel and
computes the same value; the groups form a partition of the input, none is empty, there are at most as many
groups as items, and inside a group every member is compatible with all earlier members. -/
theorem divideConnecteds_terminates_and_partitions {α β : Type} [LE β] [DecidableRel (α := β) (· ≤ ·)]
    (key : α → β) (compatible : α → α → Bool) (simples : List α) :
    (divideConnecteds key compatible simples).flatten.Perm simples ∧
    (∀ g ∈ divideConnecteds key compatible simples, g ≠ []) ∧
    (divideConnecteds key compatible simples).length ≤ simples.length ∧
    (∀ fuel, simples.length + 1 ≤ fuel →
      divideConnectedsFuel key compatible fuel simples = some (divideConnecteds key compatible simples)) ∧
    (simples ≠ [] → (grow key compatible simples [] []).2.length < simples.length) ∧
    (∀ g ∈ divideConnecteds key compatible simples, g.Pairwise (fun a b => compatible b a = true)) := by
  obtain ⟨h1, h2, h3, h4⟩ := divideConnecteds_spec key compatible simples.length simples (Nat.le_refl _)
  exact ⟨h1, h2, h3, fun fuel hf => divideConnectedsFuel_eq key compatible fuel simples hf,
    fun hne => (grow_top key compatible hne).2, h4⟩

/-- the first group starts with the first item of maximal key (`absareas.index(max(absareas))`), for a total
transitive order on the keys -/
theorem divideConnecteds_first_is_max {α β : Type} [LE β] [DecidableRel (α := β) (· ≤ ·)]
    (key : α → β) (compatible : α → α → Bool) (simples : List α) (hne : simples ≠ [])
    (htotal : ∀ a b : β, a ≤ b ∨ b ≤ a) (htrans : ∀ a b c : β, a ≤ b → b ≤ c → a ≤ c) :
    ∃ m t gs, divideConnecteds key compatible simples = (m :: t) :: gs ∧ m ∈ simples ∧
      ∀ x ∈ simples, key x ≤ key m := by
  cases hp : popMax key simples with
  | none => exact absurd ((popMax_eq_none key simples).1 hp) hne
  | some mr =>
    obtain ⟨m, rest⟩ := mr
    obtain ⟨t, gs, h⟩ := divideConnecteds_head key compatible hp
    exact ⟨m, t, gs, h, (popMax_perm key simples m rest hp).symm.subset List.mem_cons_self,
      popMax_max key htotal htrans simples m rest hp⟩

/-! ## `JordanCurve.clean` -/

/-- FOR EVERY ORACLE `unite`: the `while True` loop of `clean` returns with the fuel `n + 1` (and the same value
with any larger fuel) after `k` unions; every union shortens the list by one, so `len(result) + k = n`
and `k ≤ n`; the result is a fixed point of the scan: for NO index `i` can `result[i] | result[(i+1) % len]` be
formed (the scan restarts from `i = 0` after every union and the loop only exits when a complete scan fails).
If no segment can be united with itself, a non-empty input gives a non-empty result and `k ≤ n - 1`. -/
theorem cleanLoop_terminates {σ : Type} (unite : σ → σ → Option σ) (segs : List σ) :
    ∃ r k, cleanLoop unite segs = some (r, k) ∧
      (∀ d, cleanLoopFuel unite (segs.length + 1 + d) segs 0 = some (r, k)) ∧
      r.length + k = segs.length ∧
      (∀ i a b, r[i]? = some a → r[(i + 1) % r.length]? = some b → unite a b = none) ∧
      ((∀ s, unite s s = none) → segs ≠ [] → r ≠ [] ∧ k ≤ segs.length - 1) := by
  obtain ⟨r, k, h1, _, h3, h4, h5⟩ := cleanLoopFuel_spec unite (segs.length + 1) segs 0 (Nat.le_refl _)
  refine ⟨r, k, h1, fun d => cleanLoopFuel_mono unite _ _ _ d _ h1, by omega, ?_, ?_⟩
  · intro i a b ha hb
    have hi : i < r.length := by
      by_contra hc; rw [List.getElem?_eq_none (by omega)] at ha; cases ha
    cases hu : unite a b with
    | none => rfl
    | some u => exact absurd ⟨a, b, u, ha, hb, hu⟩ (h4 i hi)
  · intro hself hne
    have hr := h5 hself hne
    have := List.length_pos_of_ne_nil hr
    exact ⟨hr, by omega⟩

/-! ## Non-vacuity: concrete runs -/

/-- two crossing rectangles (a plus sign) after `split_two_jordans`:
curve 0 = `[0,4]×[1,3]` with vertices (0,1),(1,1),(3,1),(4,1),(4,3),(3,3),(1,3),(0,3);
curve 1 = `[1,3]×[0,4]` with vertices (1,0),(3,0),(3,1),(3,3),(3,4),(1,4),(1,3),(1,1); 8 segments each,
4 transversal crossings.  The table was produced by running the real `pursue_path` tests on these curves. -/
def plusJump : Jump := fun j s =>
  match j, s with
  | 0, 0 => some (1, some 7) | 0, 1 => some (1, some 2) | 0, 4 => some (1, some 3) | 0, 5 => some (1, some 6)
  | 1, 1 => some (0, some 2) | 1, 2 => some (0, some 5) | 1, 5 => some (0, some 6) | 1, 6 => some (0, some 1)
  | _, _ => none

/-- `midpoints_shapes` for the union: the segments whose mid point is outside the other rectangle (closed) -/
example : startIndexs [8, 8] (fun j s => match j with | 0 => !(s == 1 || s == 5) | _ => !(s == 2 || s == 6)) =
    [(0, 0), (0, 2), (0, 3), (0, 4), (0, 6), (0, 7), (1, 0), (1, 1), (1, 3), (1, 4), (1, 5), (1, 7)] := by decide

/-- union: one cycle of 12 segments, the outline of the plus sign (equal to the output of the real
`pursue_path` + `filter_rotations` on these curves) -/
example : followPath [8, 8] plusJump
    [(0, 0), (0, 2), (0, 3), (0, 4), (0, 6), (0, 7), (1, 0), (1, 1), (1, 3), (1, 4), (1, 5), (1, 7)] =
    .ok [[(0, 0), (1, 7), (1, 0), (1, 1), (0, 2), (0, 3), (0, 4), (1, 3), (1, 4), (1, 5), (0, 6), (0, 7)]] := by
  decide

/-- intersection: one cycle of 4 segments, the central square -/
example : followPath [8, 8] plusJump [(0, 1), (0, 5), (1, 2), (1, 6)] =
    .ok [[(0, 1), (1, 2), (0, 5), (1, 6)]] := by decide

/-- two overlapping squares `[0,2]²` and `[1,3]²` after splitting (6 segments each) -/
def squaresJump : Jump := fun j s =>
  match j, s with
  | 0, 1 => some (1, some 1) | 0, 3 => some (1, some 5) | 1, 0 => some (0, some 2) | 1, 4 => some (0, some 4)
  | _, _ => none

example : followPath [6, 6] squaresJump [(0, 0), (0, 1), (0, 4), (0, 5), (1, 1), (1, 2), (1, 3), (1, 4)] =
    .ok [[(0, 0), (0, 1), (1, 1), (1, 2), (1, 3), (1, 4), (0, 4), (0, 5)]] := by decide

example : followPath [6, 6] squaresJump [(0, 2), (0, 3), (1, 0), (1, 5)] =
    .ok [[(0, 2), (0, 3), (1, 5), (1, 0)]] := by decide

/-- the hypotheses of `pursuePath_terminates` hold for the plus sign … -/
example : ∀ j s j' os, validIdx [8, 8] (j, s) → plusJump j s = some (j', os) →
    ∃ n, [8, 8][j']? = some n ∧ 0 < n := by
  intro j s j' os _ h
  unfold plusJump at h
  split at h <;> simp at h <;> obtain ⟨rfl, _⟩ := h <;> exact ⟨8, rfl, by omega⟩

/-- … and its step is injective on the 16 existing segments, so every cycle closes at its start -/
example : ∀ a ∈ Follow.validPairsFrom 0 [8, 8], ∀ b ∈ Follow.validPairsFrom 0 [8, 8],
    pursueStep [8, 8] plusJump a = pursueStep [8, 8] plusJump b → a = b := by decide

/-- the `%=` of l.178 normalises an out-of-range start index … -/
example : pursuePath [8, 8] plusJump (0, 8) = pursuePath [8, 8] plusJump (0, 0) := by decide

/-- … an empty curve raises `ZeroDivisionError`, a missing curve `IndexError` (hypothesis `hstart` is needed) -/
example : pursuePath [8, 0] plusJump (1, 0) = .error .zeroDivision ∧
    pursuePath [8, 8] plusJump (2, 0) = .error .indexError := by decide

/-- `some (j', none)`: the end point lies on curve `j'` but no segment of `j'` starts there (the `for` of l.194
ends without `break`): the code continues with the OLD segment index on the NEW curve.  Here the end of (0,0)
lies inside segment (1,0) of a curve that was not split: the walk jumps to (1, 0 % 3), terminates, and returns a
chain whose consecutive entries are not geometrically adjacent (`from_segments` would then fail its `assert`). -/
example : pursuePath [4, 3] (fun j s => match j, s with | 0, 0 => some (1, none) | _, _ => none) (0, 0) =
    .ok [(0, 0), (1, 0), (1, 1), (1, 2)] := by decide

/-- a non-injective oracle (two segment ends sent to the same pair — a triple point): the walk is ρ-shaped, it
terminates, but the step from the last entry leads to the SECOND entry, not to the start -/
def rhoJump : Jump := fun j s =>
  match j, s with
  | 0, 0 => some (1, some 0) | 1, 1 => some (0, some 1) | 0, 1 => some (1, some 0)
  | _, _ => none

theorem rho_example : pursuePath [2, 2] rhoJump (0, 0) = .ok [(0, 0), (1, 0), (1, 1), (0, 1)] ∧
    pursueStep [2, 2] rhoJump (0, 1) = (1, 0) := by decide

/-- `is_rotation` examples: a rotation, a reversal, the empty lists, and a list WITH a repeated entry for which
the answer is `False` although `b = a.rotate 2` (only the first occurrence of `b[0]` is tried) -/
example : isRotation [1, 2, 3] [3, 1, 2] = true ∧ isRotation [1, 2, 3] [3, 2, 1] = false ∧
    isRotation ([] : List Nat) [] = false ∧
    isRotation [1, 2, 1, 3] [1, 3, 1, 2] = false ∧ [1, 3, 1, 2] = [1, 2, 1, 3].rotate 2 := by decide

example : filterRotations [[1, 2, 3], [2, 3, 1], [3, 2, 1], [1, 3, 2]] = [[1, 2, 3], [3, 2, 1]] := by decide

/-- `DivideConnecteds` on five items `(|area|, family)`, compatible = same family: three groups -/
example : divideConnectedsFuel (fun (x : Nat × Nat) => x.1) (fun a b => a.2 == b.2) 6
    [(3, 0), (5, 1), (9, 0), (9, 1), (1, 2)] = some [[(9, 0), (3, 0)], [(9, 1), (5, 1)], [(1, 2)]] := by decide

example : divideConnecteds (fun (x : Nat × Nat) => x.1) (fun a b => a.2 == b.2)
    [(3, 0), (5, 1), (9, 0), (9, 1), (1, 2)] = [[(9, 0), (3, 0)], [(9, 1), (5, 1)], [(1, 2)]] := by
  have := (divideConnecteds_terminates_and_partitions (fun (x : Nat × Nat) => x.1) (fun a b => a.2 == b.2)
    [(3, 0), (5, 1), (9, 0), (9, 1), (1, 2)]).2.2.2.1 6 (by decide)
  rw [show divideConnectedsFuel (fun (x : Nat × Nat) => x.1) (fun a b => a.2 == b.2) 6
    [(3, 0), (5, 1), (9, 0), (9, 1), (1, 2)] = some [[(9, 0), (3, 0)], [(9, 1), (5, 1)], [(1, 2)]] from by decide]
    at this
  exact (Option.some.inj this).symm

/-- `clean` on segments `(from, to)` of a polygon with collinear vertices: `unite` joins `(a,b)` and `(b,c)` when
`b` is one of the collinear vertices 1, 3 -/
example : cleanLoop (fun (a b : Nat × Nat) => if a.2 == b.1 && (a.2 == 1 || a.2 == 3) then some (a.1, b.2) else none)
    [(0, 1), (1, 2), (2, 3), (3, 4), (4, 0)] = some ([(0, 2), (2, 4), (4, 0)], 2) := by decide

/-- the hypothesis "no segment can be united with itself" of `cleanLoop_terminates` is needed: with an oracle
that unites everything, `segments[i] = segment; segments.pop(j)` with `i = j = 0` empties a one-segment list -/
example : cleanLoop (fun (a _ : Nat) => some a) [7, 8, 9] = some ([], 3) := by decide

end ShapeVerif.C01b
