/-
C18b — the segment calculus for EVERY degree, and the evaluation kernels AS WRITTEN IN THE SOURCE.

C18.lean proves the identities for degrees 1–6 by `ring` on explicit control polygons.  Here (helpers in
Proofs/BernsteinGen, CasteljauGen, DerivGen):
 * `eval_is_bernstein_all` — `segment(t)` (Horner on the basis matrix) is the Bernstein sum of the documentation, for every
   control polygon of every length and every rational t;  `comb_is_binomial`;
 * `eval_is_deCasteljau_all`, `box_contains_curve_all` — hence the curve lies in the box of its control points, all degrees;
 * `derivate_is_derivative_all` — `derivate()` is the formal derivative of the coordinate polynomial, all degrees
   (`coordPoly_derivative_all`: equality of the coefficient lists themselves for degree ≥ 1);
 * `eval_reverse_all` — reversing the control polygon reparametrises by t ↦ 1 − t (what `invert()` relies on);
 * `split_left_all`, `split_right_all`, `split_junction_all` — the two pieces of `split` retrace the segment:
   left(u) = seg(t0·u), right(u) = seg(t0 + u(1−t0)), the junction is seg(t0), all degrees, all t0, u.
 * SOURCE TIE (Gen/Arith.lean is regenerated from curve.py on every run): `Math.comb`, `Math.horner_method` and the
   entry rule of `Math.bezier_caract_matrix` as written in the source equal the model's (`source_comb_is_model`, …), so
   `source_eval_is_bernstein`: Horner (source) on the columns of the basis matrix (source, with the source's `comb`)
   applied to the control values IS the Bernstein sum — for every degree.
-/
import ShapeVerif.Props.C18
import ShapeVerif.Proofs.BernsteinGen
import ShapeVerif.Proofs.CasteljauGen
import ShapeVerif.Proofs.DerivGen
import ShapeVerif.Gen.Arith

set_option linter.unusedTactic false
set_option linter.unreachableTactic false

namespace ShapeVerif.C18
open ShapeVerif

theorem comb_is_binomial (n i : Nat) (h : i ≤ n) : comb n i = Nat.choose n i := comb_eq_choose n i h

theorem eval_coord_is_bernstein_all (cs : List Rat) (t : Rat) : evalCoord cs t = bernsteinCoord cs t :=
  evalCoord_eq_bernsteinCoord cs t

/-- `segment(t)` is the Bernstein sum, for every degree -/
theorem eval_is_bernstein_all (s : Seg) (t : Rat) : evalSeg s t = bernsteinSeg s t := evalSeg_eq_bernsteinSeg s t

/-- … and the de Casteljau value -/
theorem eval_is_deCasteljau_all (s : Seg) (hs : s ≠ []) (t : Rat) : evalSeg s t = dcEval s t := by
  rw [evalSeg_eq_bernsteinSeg, dcEval_eq_bernsteinSeg s hs t]

/-- the curve lies in the bounding box of its control points: every degree, every t ∈ [0,1] -/
theorem box_contains_curve_all (s : Seg) (hs : s ≠ []) (t : Rat) (ht : 0 ≤ t ∧ t ≤ 1) :
    (Seg.box s).contains (evalSeg s t) = true := by
  rw [eval_is_deCasteljau_all s hs t]; exact dcEval_in_box s t hs ht

/-- `derivate()` is the derivative: every degree -/
theorem derivate_is_derivative_all (cs : List Rat) (t : Rat) :
    evalCoord (derivCoord cs) t = peval (pderiv (coordPoly cs)) t := deriv_is_derivative cs t

theorem coordPoly_derivative_all (cs : List Rat) (h2 : 2 ≤ cs.length) :
    coordPoly (derivCoord cs) = pderiv (coordPoly cs) := coordPoly_derivCoord cs h2

theorem derivate_segment_all (s : Seg) (t : Rat) :
    (evalSeg (derivSeg s) t).x = peval (pderiv (coordPoly s.xs)) t ∧
    (evalSeg (derivSeg s) t).y = peval (pderiv (coordPoly s.ys)) t := ⟨derivSeg_x_ok s t, derivOK_all s t⟩

/-- reversing the control polygon reparametrises by t ↦ 1 − t: every degree -/
theorem eval_reverse_all (s : Seg) (t : Rat) : evalSeg s.reverse t = evalSeg s (1 - t) := evalSeg_reverse s t

/-- `split`: the left piece retraces seg on [0, t0] -/
theorem split_left_all (s : Seg) (hs : s ≠ []) (t0 u : Rat) : evalSeg (splitAt s t0).1 u = evalSeg s (t0 * u) := by
  rw [evalSeg_eq_bernsteinSeg, evalSeg_eq_bernsteinSeg]; exact splitAt_left_bernstein s hs t0 u

/-- `split`: the right piece retraces seg on [t0, 1] -/
theorem split_right_all (s : Seg) (hs : s ≠ []) (t0 u : Rat) :
    evalSeg (splitAt s t0).2 u = evalSeg s (t0 + u * (1 - t0)) := by
  rw [evalSeg_eq_bernsteinSeg, evalSeg_eq_bernsteinSeg]; exact splitAt_right_bernstein s hs t0 u

/-- `split`: both pieces keep the degree, keep the outer end points, and meet exactly at seg(t0) -/
theorem split_junction_all (s : Seg) (hs : s ≠ []) (t0 : Rat) :
    (splitAt s t0).1.length = s.length ∧ (splitAt s t0).2.length = s.length ∧
    (splitAt s t0).1.head? = s.head? ∧ (splitAt s t0).2.getLast? = s.getLast? ∧
    (splitAt s t0).1.getLast? = (splitAt s t0).2.head? ∧ (splitAt s t0).1.getLast? = some (evalSeg s t0) := by
  obtain ⟨h1, h2⟩ := splitAt_lengths s t0
  obtain ⟨h3, h4, h5, h6⟩ := splitAt_endpoints s hs t0
  exact ⟨h1, h2, h3, h4, h5, by rw [h6, eval_is_deCasteljau_all s hs t0]⟩

/-! ### the kernels as written in the source -/

/-- `Math.comb` as written in curve.py is the model's `comb` wherever it is called (i ≤ n) … -/
theorem foldl_div_one (l : List Nat) (v : Nat) : (1 :: l).foldl (fun a j => a / j) v = l.foldl (fun a j => a / j) v := by
  simp

theorem source_comb_is_model (n i : Nat) (h : i ≤ n) : Gen.comb n i = comb n i := by
  -- (two scripts: the division loop written `range(2, i + 1)` as in the source today, or `range(1, i + 1)` - dividing by 1 first changes nothing)
  first
  | (simp only [Gen.comb, comb, List.range'_eq_map_range, List.foldl_map]
     have h1 : n + 1 - (n - i + 1) = i := by omega
     have h2 : i + 1 - 2 = i - 1 := by omega
     rw [h1, h2]
     congr 1
     · funext v k; rw [Nat.add_comm 2 k])
  | (simp only [Gen.comb, comb]
     have h1 : n + 1 - (n - i + 1) = i := by omega
     rw [h1]
     cases i with
     | zero => simp
     | succ m =>
       have e : List.range' 1 (m + 1 + 1 - 1) = 1 :: List.range' 2 m := by
         rw [show m + 1 + 1 - 1 = m + 1 by omega, List.range'_succ]
       rw [e, foldl_div_one]
       simp only [List.range'_eq_map_range, List.foldl_map, Nat.add_sub_cancel]
       congr 1
       · funext v k; rw [Nat.add_comm 2 k])

/-- … hence the binomial coefficient -/
theorem source_comb_is_binomial (n i : Nat) (h : i ≤ n) : Gen.comb n i = Nat.choose n i := by
  rw [source_comb_is_model n i h, comb_eq_choose n i h]

/-- `Math.horner_method` as written in the source is the model's Horner scheme -/
theorem source_horner_is_model : Gen.horner = horner := by
  funext t cs; simp only [Gen.horner, horner]

/-- the entry rule of `Math.bezier_caract_matrix` as written in the source is the model's -/
theorem source_caract_is_model (deg i j : Nat) (h : i ≤ deg) : Gen.caractEntry deg i j = caractEntry deg i j := by
  simp only [Gen.caractEntry, caractEntry]
  by_cases hj : j ≤ deg - i
  · have : j < deg - i + 1 := by omega
    rw [if_pos this, if_pos hj, source_comb_is_model deg i h, source_comb_is_model (deg - i) j hj]
    have : ((deg + i + j) % 2 ≠ 0) ↔ ((deg + i + j) % 2 = 1) := by omega
    simp only [this]
  · have : ¬ j < deg - i + 1 := by omega
    rw [if_neg this, if_neg hj]

/-- `BezierCurve.eval` assembled from the SOURCE kernels: Horner on `ctrlpoints · matrix` -/
def sourceEvalCoord (cs : List Rat) (t : Rat) : Rat :=
  let deg := cs.length - 1
  Gen.horner t ((List.range (deg + 1)).map fun j => (cs.zipIdx.map fun (c, i) => c * (Gen.caractEntry deg i j : Rat)).sum)

/-- the source evaluation is the model evaluation … -/
theorem source_eval_is_model (cs : List Rat) (t : Rat) : sourceEvalCoord cs t = evalCoord cs t := by
  unfold sourceEvalCoord evalCoord canonCoefs canonCoef
  rw [source_horner_is_model]
  show horner t _ = horner t _
  congr 1
  apply List.map_congr_left
  intro j _
  congr 1
  apply List.map_congr_left
  rintro ⟨c, i⟩ hi
  have hlt : i < cs.length := by
    have := List.mem_zipIdx hi
    omega
  simp only
  rw [source_caract_is_model _ i j (by omega)]

/-- … hence the Bernstein sum of the documentation, for every degree -/
theorem source_eval_is_bernstein (cs : List Rat) (t : Rat) : sourceEvalCoord cs t = bernsteinCoord cs t := by
  rw [source_eval_is_model, evalCoord_eq_bernsteinCoord]

/-! non-vacuity -/
example : sourceEvalCoord [0, 1, 3, 4] (1/3) = 34/27 := by decide +kernel
example : Gen.comb 7 3 = 35 := by decide +kernel
example : (List.range 4).map (fun j => Gen.caractEntry 3 1 j) = [3, -6, 3, 0] := by decide +kernel

end ShapeVerif.C18
