/-
C10 — answers depend only on the current geometry: the cached signed length is never stale.
Only property theorems here; helper lemmas are in Proofs/Heap.lean.
Quantifiers: every theorem is for ALL heaps satisfying the stated invariants and ALL operations, or
for ALL histories `ops : List HeapOp` started from the empty heap.
-/
import ShapeVerif.Proofs.Heap

namespace ShapeVerif.C10
open ShapeVerif Heap

/-- one step keeps every cached length consistent with the current geometry -/
theorem cacheOK_step {h : Heap} (op : HeapOp) (hw : h.WF) (hs : h.sep = true) (hc : h.cacheOK = true) :
    (h.step op).1.cacheOK = true :=
  (cacheOK_iff _).mpr (CacheOK_step hw ((sep_iff h).mp hs) ((cacheOK_iff h).mp hc) op)

/-- after every history the cache is consistent -/
theorem cacheOK_runOps (ops : List HeapOp) : (Heap.init.runOps ops).cacheOK = true :=
  (cacheOK_iff _).mpr (inv_runOps inv_init ops).cache

/-- in every reachable heap the signed-length query answers from the CURRENT geometry -/
theorem lenAnswer_eq_geom {h : Heap} (r : h.Reachable) (v : Nat) :
    h.lenAnswer v = (h.lookup v).map h.geom :=
  lenAnswer_of_cacheOK r.inv.cache v

/-- the same, spelled out over histories -/
theorem lenAnswer_runOps (ops : List HeapOp) (v : Nat) :
    (Heap.init.runOps ops).lenAnswer v
      = ((Heap.init.runOps ops).lookup v).map (Heap.init.runOps ops).geom :=
  lenAnswer_eq_geom ⟨ops, rfl⟩ v

/-- … which is what a fresh deep copy (whose cache is empty) would answer -/
theorem lenAnswer_eq_fresh_copy {h : Heap} (r : h.Reachable) (v : Nat) (c : HCurve)
    (hl : h.lookup v = some c) :
    h.lenAnswer v = some ((h.copyCurve c).1.geom (h.copyCurve c).2) ∧ (h.copyCurve c).2.cache = none := by
  rw [lenAnswer_eq_geom r v, hl, geom_copyCurve]
  exact ⟨rfl, rfl⟩

/-- the cache of the model stores the GEOMETRY at fill time, so the statement is not about the length in particular: every quantity derived from
a cached value (signed length, box, area, derivative curves, …: any function `f` of the geometry) equals the same quantity computed from the
current geometry, in every reachable heap — a memo of ANY function of the geometry that every mutator resets is never stale -/
theorem derived_answer_eq_geom {α : Type} (f : List (List Pt) → α) {h : Heap} (r : h.Reachable) (v : Nat) :
    (h.lenAnswer v).map f = ((h.lookup v).map h.geom).map f := by
  rw [lenAnswer_eq_geom r v]

/-- … and over histories -/
theorem derived_answer_runOps {α : Type} (f : List (List Pt) → α) (ops : List HeapOp) (v : Nat) :
    ((Heap.init.runOps ops).lenAnswer v).map f
      = (((Heap.init.runOps ops).lookup v).map (Heap.init.runOps ops).geom).map f :=
  derived_answer_eq_geom f ⟨ops, rfl⟩ v

/-! ### the pinned (unrepaired) behaviour: transformations keep the cached length -/

/-- `Heap.step` except that `move/scale/rot` leave `c.cache` as it is (the defect of the pinned code) -/
def stepStale (h : Heap) : HeapOp → Heap × String
  | .move v d => match h.lookup v with
    | none => (h, "novar")
    | some c => ((h.mapCells (ids c) fun p => p.move d).setVar v c, "ok")
  | .scale v sx sy => match h.lookup v with
    | none => (h, "novar")
    | some c => ((h.mapCells (ids c) fun p => p.scale sx sy).setVar v c, "ok")
  | .rot v cs sn => match h.lookup v with
    | none => (h, "novar")
    | some c => ((h.mapCells (ids c) fun p => p.rot cs sn).setVar v c, "ok")
  | op => h.step op

def runStale (h : Heap) : List HeapOp → Heap
  | [] => h
  | op :: rest => runStale (stepStale h op).1 rest

/-- the history `poly; len; scale` -/
def staleHistory : List HeapOp :=
  [.poly 0 [⟨0, 0⟩, ⟨1, 0⟩, ⟨0, 1⟩], .len 0, .scale 0 2 2]

/-- with the pinned behaviour the cache is stale after `poly; len; scale` … -/
theorem stale_counterexample : (runStale Heap.init staleHistory).cacheOK = false := by decide +kernel

/-- … the query answers with the geometry before the scaling, not the current one … -/
theorem stale_answer :
    (runStale Heap.init staleHistory).lenAnswer 0
        = some [[⟨0, 0⟩, ⟨1, 0⟩], [⟨1, 0⟩, ⟨0, 1⟩], [⟨0, 1⟩, ⟨0, 0⟩]]
    ∧ ((runStale Heap.init staleHistory).lookup 0).map (runStale Heap.init staleHistory).geom
        = some [[⟨0, 0⟩, ⟨2, 0⟩], [⟨2, 0⟩, ⟨0, 2⟩], [⟨0, 2⟩, ⟨0, 0⟩]] := by decide +kernel

/-- … whereas the repaired step answers from the current geometry on the same history -/
example : (Heap.init.runOps staleHistory).cacheOK = true
    ∧ (Heap.init.runOps staleHistory).lenAnswer 0
        = some [[⟨0, 0⟩, ⟨2, 0⟩], [⟨2, 0⟩, ⟨0, 2⟩], [⟨0, 2⟩, ⟨0, 0⟩]] := by decide +kernel

/-! ### non-vacuity: a concrete history with sharing, a copy, mutations, queries and a split -/

def demo : List HeapOp :=
  [.poly 0 [⟨0, 0⟩, ⟨4, 0⟩, ⟨0, 4⟩], .len 0, .copy 1 0, .move 1 ⟨10, 0⟩, .len 1, .len 0,
   .split 1 [(0, 1/2)], .scale 0 2 3, .len 0]

/-- the hypotheses of `cacheOK_step` hold along `demo` (they are satisfiable) and a cache is really
filled: variable 0 holds a cached length equal to its current (scaled) geometry -/
example : (Heap.init.runOps demo).sep = true ∧ (Heap.init.runOps demo).cacheOK = true
    ∧ ((Heap.init.runOps demo).lookup 0).map (·.cache)
        = some (some [[⟨0, 0⟩, ⟨8, 0⟩], [⟨8, 0⟩, ⟨0, 12⟩], [⟨0, 12⟩, ⟨0, 0⟩]])
    ∧ (Heap.init.runOps demo).lenAnswer 0
        = some [[⟨0, 0⟩, ⟨8, 0⟩], [⟨8, 0⟩, ⟨0, 12⟩], [⟨0, 12⟩, ⟨0, 0⟩]] := by decide +kernel

end ShapeVerif.C10
