/-
C11 — a raising or interrupted call leaves its operands intact.
Informal property: if a non-mutating operation (boolean operator, containment, `==`, integral) raises
or is interrupted at any internal call boundary, every operand still denotes the same shape afterwards
and all object invariants still hold.

Model (Model/Crash.lean, Model/Heap.lean).  After the committed repairs the only side effects such an
operation has on its operand curves are (i) filling the cached signed length (`HeapOp.len v`) and
(ii) refining an operand curve in place by `split` (`HeapOp.split v pairs`, parameters in [0,1] —
`HeapOp.nodesInUnit`, asserted by the code before splitting), each published atomically.  An interrupt
leaves a PREFIX of such a sequence executed: `h.crashAfter ops k = h.runOps (ops.take k)`.

Proved here, for ALL heaps satisfying the invariants (in particular all reachable heaps), ALL effect
sequences, ALL interruption points `k`, ALL variables:
  * `crash_inv`: well-formedness, separation and cache consistency hold in the crashed state
    (for ANY operation sequence, not only query effects);
  * `split_is_value_split`: for a polygon, the in-place heap `split` produces exactly
    `JordanCurve.split` of the old geometry (fresh junction cells = points of the old edges);
  * `crash_safe`: every polygon operand is still bound, still a polygon, and denotes the same region:
    same crossing number and same membership answer at EVERY point, same signed area (hence
    orientation), same moments up to order 2;
  * `crash_safe_exact`: an operand of ANY degree that is not itself refined by the interrupted call has
    exactly the geometry it had (cache fills change nothing visible);
  * `crash_len_answer`: the (possibly freshly cached) signed-length answer is that of the current geometry;
  * `crash_other_objects`: objects not touched by the executed prefix are unchanged (frame, from C08);
  * `pinned_not_crash_safe`: the pinned tree's `SimpleShape._contains_shape` (`invert`, query, `invert`)
    is NOT crash safe: interrupted between the two inversions the operand denotes the complement.
Restriction (stated, not silent): region preservation under `split` is for POLYGON operands — the heap
model refines straight edges only (Model/Heap.lean), curved operands are covered by `crash_safe_exact`
when they are not split.  Not proved here: that the repaired Python code performs no other write on its
operands — this is what the fault-injection harness checks on the real code.
Helper lemmas are in Proofs/Misc.lean.
-/
import ShapeVerif.Proofs.Misc
import ShapeVerif.Props.C08

namespace ShapeVerif.C11
open ShapeVerif ShapeVerif.Misc Heap

/-! ### the invariants survive every interruption -/

theorem crash_inv {h : Heap} (I : h.Inv) (ops : List HeapOp) (k : Nat) :
    (h.crashAfter ops k).Inv ∧ (h.crashAfter ops k).sep = true ∧ (h.crashAfter ops k).cacheOK = true := by
  have I' : (h.crashAfter ops k).Inv := inv_runOps I _
  exact ⟨I', (sep_iff _).mpr I'.sep, (cacheOK_iff _).mpr I'.cache⟩

/-! ### the in-place refinement is the value-level split -/

theorem split_is_value_split {h : Heap} (hw : h.WF) (v : Nat) (c : HCurve) (hl : h.lookup v = some c)
    (hp : (h.geom c).isPolygon = true) (pairs : List (Nat × Rat)) :
    ((h.step (.split v pairs)).1.lookup v).map (h.step (.split v pairs)).1.geom
      = some (Jordan.split (h.geom c) pairs) := by
  rw [step_split_lookup hl, lookup_setVar_self, geom_setVar, Option.map_some, geom_splitFold hw hl hp]

/-! ### operands denote the same region after an interruption -/

theorem crash_safe {h : Heap} (I : h.Inv) (ops : List HeapOp)
    (hq : ∀ op ∈ ops, op.isQueryEffect = true) (hn : ∀ op ∈ ops, op.nodesInUnit)
    (k w : Nat) (c : HCurve) (hl : h.lookup w = some c) (hp : (h.geom c).isPolygon = true) :
    (h.crashAfter ops k).Inv ∧
    ∃ c', (h.crashAfter ops k).lookup w = some c'
      ∧ ((h.crashAfter ops k).geom c').isPolygon = true
      ∧ (∀ r, memW ((h.crashAfter ops k).geom c') r = memW (h.geom c) r)
      ∧ (∀ r, wind ((h.crashAfter ops k).geom c').edges r = wind (h.geom c).edges r)
      ∧ Jordan.area ((h.crashAfter ops k).geom c') = Jordan.area (h.geom c)
      ∧ (∀ a b, a + b ≤ 2 →
          Jordan.moment ((h.crashAfter ops k).geom c') a b = Jordan.moment (h.geom c) a b) := by
  refine ⟨(crash_inv I ops k).1, ?_⟩
  obtain ⟨c', hl', s⟩ := runOps_effects (ops.take k) I (fun o ho => hq o (List.mem_of_mem_take ho))
    (fun o ho => hn o (List.mem_of_mem_take ho)) hl hp
  exact ⟨c', hl', s.poly, s.mem, s.wind, s.area, s.moment⟩

/-- the same for every heap reachable from the empty heap by any history -/
theorem crash_safe_reachable {h : Heap} (r : h.Reachable) (ops : List HeapOp)
    (hq : ∀ op ∈ ops, op.isQueryEffect = true) (hn : ∀ op ∈ ops, op.nodesInUnit)
    (k w : Nat) (c : HCurve) (hl : h.lookup w = some c) (hp : (h.geom c).isPolygon = true) :
    ∃ c', (h.crashAfter ops k).lookup w = some c'
      ∧ (∀ r, memW ((h.crashAfter ops k).geom c') r = memW (h.geom c) r)
      ∧ Jordan.area ((h.crashAfter ops k).geom c') = Jordan.area (h.geom c) := by
  obtain ⟨_, c', h1, _, h3, _, h5, _⟩ := crash_safe r.inv ops hq hn k w c hl hp
  exact ⟨c', h1, h3, h5⟩

/-- an operand (of ANY degree) that the interrupted call does not refine keeps exactly its geometry;
in particular whenever the executed effects are cache fills only -/
theorem crash_safe_exact {h : Heap} (I : h.Inv) (ops : List HeapOp)
    (hq : ∀ op ∈ ops, op.isQueryEffect = true) (k w : Nat)
    (hns : ∀ op ∈ ops, ∀ pairs, op ≠ .split w pairs) (c : HCurve) (hl : h.lookup w = some c) :
    ∃ c', (h.crashAfter ops k).lookup w = some c' ∧ (h.crashAfter ops k).geom c' = h.geom c :=
  runOps_effects_exact (ops.take k) I (fun o ho => hq o (List.mem_of_mem_take ho))
    (fun o ho => hns o (List.mem_of_mem_take ho)) hl

/-- the signed-length query of the crashed state answers from the current geometry: a cache filled
before the interruption is never stale -/
theorem crash_len_answer {h : Heap} (I : h.Inv) (ops : List HeapOp) (k w : Nat) :
    (h.crashAfter ops k).lenAnswer w = ((h.crashAfter ops k).lookup w).map (h.crashAfter ops k).geom :=
  lenAnswer_of_cacheOK (crash_inv I ops k).1.cache w

/-- objects that no executed effect targets are untouched -/
theorem crash_other_objects {h : Heap} (I : h.Inv) (ops : List HeapOp) (k w : Nat)
    (hne : ∀ op ∈ ops, op.target ≠ w) :
    ((h.crashAfter ops k).lookup w).map (h.crashAfter ops k).geom = (h.lookup w).map h.geom :=
  C08.frame_runOps w (ops.take k) I.wf ((sep_iff h).mpr I.sep) (fun o ho => hne o (List.mem_of_mem_take ho))

/-! ### the pinned tree was not crash safe -/

/-- the old `_contains_shape` writes more than query effects -/
theorem old_sequence_not_query_effects (v : Nat) (query : List HeapOp) :
    ¬ ∀ op ∈ oldContainsShape v query, op.isQueryEffect = true := by
  intro h
  have := h (.invert v) (by simp [oldContainsShape])
  cases this

/-- a triangle, the old in-place-invert sequence, interrupted between the two inversions: the operand
now denotes the complement — the point (1,1) inside the triangle is no longer a member and the signed
area has changed sign; the completed sequence restores the operand -/
theorem pinned_not_crash_safe :
    let h := Heap.init.runOps [.poly 0 [⟨0, 0⟩, ⟨4, 0⟩, ⟨0, 4⟩]]
    let ops := oldContainsShape 0 [.len 0]
    (h.lookup 0).map (fun c => (memW (h.geom c) ⟨1, 1⟩, Jordan.area (h.geom c))) = some (true, 8)
    ∧ ((h.crashAfter ops 1).lookup 0).map
        (fun c => (memW ((h.crashAfter ops 1).geom c) ⟨1, 1⟩, Jordan.area ((h.crashAfter ops 1).geom c)))
        = some (false, -8)
    ∧ ((h.crashAfter ops 2).lookup 0).map
        (fun c => (memW ((h.crashAfter ops 2).geom c) ⟨1, 1⟩, Jordan.area ((h.crashAfter ops 2).geom c)))
        = some (false, -8)
    ∧ ((h.crashAfter ops 3).lookup 0).map
        (fun c => (memW ((h.crashAfter ops 3).geom c) ⟨1, 1⟩, Jordan.area ((h.crashAfter ops 3).geom c)))
        = some (true, 8) := by
  decide +kernel

/-- hence the conclusion of `crash_safe` fails for the old sequence -/
theorem pinned_violates_crash_safe :
    let h := Heap.init.runOps [.poly 0 [⟨0, 0⟩, ⟨4, 0⟩, ⟨0, 4⟩]]
    ¬ ∀ k c c', h.lookup 0 = some c → (h.crashAfter (oldContainsShape 0 [.len 0]) k).lookup 0 = some c' →
        ∀ r, memW ((h.crashAfter (oldContainsShape 0 [.len 0]) k).geom c') r = memW (h.geom c) r := by
  intro h H
  have h0 := pinned_not_crash_safe
  simp only at h0
  obtain ⟨h1, h2, _, _⟩ := h0
  cases hc : h.lookup 0 with
  | none => rw [show Heap.lookup (Heap.init.runOps [.poly 0 [⟨0, 0⟩, ⟨4, 0⟩, ⟨0, 4⟩]]) 0 = h.lookup 0 from rfl, hc] at h1; cases h1
  | some c =>
    cases hc' : (h.crashAfter (oldContainsShape 0 [.len 0]) 1).lookup 0 with
    | none =>
      rw [show Heap.lookup (Heap.crashAfter (Heap.init.runOps [.poly 0 [⟨0, 0⟩, ⟨4, 0⟩, ⟨0, 4⟩]])
        (oldContainsShape 0 [.len 0]) 1) 0 = (h.crashAfter (oldContainsShape 0 [.len 0]) 1).lookup 0 from rfl,
        hc'] at h2
      cases h2
    | some c' =>
      have e := H 1 c c' hc hc' ⟨1, 1⟩
      rw [show Heap.lookup (Heap.init.runOps [.poly 0 [⟨0, 0⟩, ⟨4, 0⟩, ⟨0, 4⟩]]) 0 = h.lookup 0 from rfl, hc] at h1
      rw [show Heap.lookup (Heap.crashAfter (Heap.init.runOps [.poly 0 [⟨0, 0⟩, ⟨4, 0⟩, ⟨0, 4⟩]])
        (oldContainsShape 0 [.len 0]) 1) 0 = (h.crashAfter (oldContainsShape 0 [.len 0]) 1).lookup 0 from rfl,
        hc'] at h2
      simp only [Option.map_some, Option.some.injEq, Prod.mk.injEq] at h1 h2
      have e1 : memW (h.geom c) ⟨1, 1⟩ = true := h1.1
      have e2 : memW ((h.crashAfter (oldContainsShape 0 [.len 0]) 1).geom c') ⟨1, 1⟩ = false := h2.1
      rw [e1, e2] at e
      cases e

/-! ### non-vacuity -/

/-- a triangle `0`, a square `1`; the effects of a containment query: cache fills and refinements -/
def demoHeap : Heap :=
  Heap.init.runOps [.poly 0 [⟨0, 0⟩, ⟨4, 0⟩, ⟨0, 4⟩], .poly 1 [⟨1, 1⟩, ⟨2, 1⟩, ⟨2, 2⟩, ⟨1, 2⟩]]
def demoEffects : List HeapOp :=
  [.len 0, .split 0 [(0, 1/2), (1, 1/4), (1, 3/4)], .len 1, .split 1 [(2, 1/2)], .len 0]

example : (∀ op ∈ demoEffects, op.isQueryEffect = true) ∧ (∀ op ∈ demoEffects, op.nodesInUnit) := by
  refine ⟨by decide, ?_⟩
  intro op hop
  simp only [demoEffects, List.mem_cons, List.not_mem_nil, or_false] at hop
  rcases hop with rfl | rfl | rfl | rfl | rfl <;> simp only [HeapOp.nodesInUnit] <;> intro it hit <;>
    simp only [List.mem_cons, List.not_mem_nil, or_false] at hit
  · rcases hit with rfl | rfl | rfl <;> constructor <;> decide +kernel
  · subst hit; constructor <;> decide +kernel

example : demoHeap.Inv := Reachable.inv ⟨_, rfl⟩

/-- interrupted after two effects, the triangle really has been refined (6 edges instead of 3, cache
refilled later) — and still has area 8 and still contains (1,1) -/
example :
    ((demoHeap.crashAfter demoEffects 2).lookup 0).map
      (fun c => (((demoHeap.crashAfter demoEffects 2).geom c).length,
        Jordan.area ((demoHeap.crashAfter demoEffects 2).geom c),
        memW ((demoHeap.crashAfter demoEffects 2).geom c) ⟨1, 1⟩)) = some (6, 8, true)
    ∧ (demoHeap.lookup 0).map (fun c => (demoHeap.geom c).length) = some 3 := by
  decide +kernel

end ShapeVerif.C11
