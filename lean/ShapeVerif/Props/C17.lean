/-
C17 — the constructors of a closed curve agree, and open chains are rejected.
Informal property: `JordanCurve.from_vertices(vs)` and `JordanCurve.from_segments(segments of vs)`
describe the same curve; `vertices` gives each vertex once, in order; `from_segments` rejects a chain
whose consecutive segments do not meet (within `Point2D.__eq__`, 1e-9) and, when it accepts, the result
has exactly shared junctions, the same number of segments and the same degrees; the box of a curve
contains every control point and every curve point; the sign of the signed area is the orientation,
and reversing the vertex order negates it.

Proved here (ALL vertex lists, ALL segment lists, ALL parameters `t ∈ [0,1]`, EVERY degree unless said):
  * `fromSegments (fromVertices vs) = some (fromVertices vs)`; more generally every exactly closed chain
    is accepted and returned unchanged; `fromSegments` is idempotent on its results;
  * `vertices (fromVertices vs) = vs`, `points0 (fromVertices vs) = vs`;
  * `fromSegments j = none ↔ j ≠ [] ∧ closedChain j = false`; a concrete open chain is rejected;
  * on success: same number of segments, same control-point counts (degrees), and — for chains whose
    segments have at least two control points (degree ≥ 1) — exact junctions, cyclically.
    The degree-0 restriction is NECESSARY in the model: a one-point "segment" is replaced by the next
    start point, which is only 1e-9-close to the previous end point (example at the end);
  * the box contains every control point and every de Casteljau point of every segment;
  * `ccw ↔ 0 < area`; `area (fromVertices vs.reverse) = - area (fromVertices vs)` (also every moment
    `∫ x^a y^b dy`, `a + b ≤ 15`).
Not proved here: `from_ctrlpoints`/`from_full_curve` (not modelled), and that the Python objects at the
junctions are shared by identity (that is C08's heap model).  Helper lemmas are in Proofs/Misc.lean.
-/
import ShapeVerif.Proofs.Misc

namespace ShapeVerif.C17
open ShapeVerif ShapeVerif.Misc

/-! ### the two constructors agree -/

/-- `Point2D.__eq__` is reflexive (|0| ≤ 1e-9) -/
theorem point_eq_refl (p : Pt) : Pt.eqTol p p = true := eqTol_refl p

/-- every exactly closed chain of non-empty segments is accepted and returned unchanged -/
theorem fromSegments_closedExact (j : Jordan) (h : ClosedExact j) : Jordan.fromSegments j = some j :=
  fromSegments_of_closedExact h

/-- a vertex description and its segment description give the same curve -/
theorem fromSegments_fromVertices (vs : List Pt) :
    Jordan.fromSegments (Jordan.fromVertices vs) = some (Jordan.fromVertices vs) := by
  cases vs with
  | nil => rfl
  | cons v t => exact fromSegments_of_closedExact (closedExact_fromVertices (by simp))

/-- each vertex once, in order -/
theorem vertices_fromVertices (vs : List Pt) : (Jordan.fromVertices vs).vertices = vs := by
  cases vs with
  | nil => rfl
  | cons v0 t =>
    rw [Geom.fromVertices_cons, Jordan.vertices, List.flatMap_map]
    have : ∀ ab : Pt × Pt, [ab.1, ab.2].dropLast = [ab.1] := fun _ => rfl
    simp only [this]
    have hf : ∀ L : List (Pt × Pt), L.flatMap (fun ab => [ab.1]) = L.map Prod.fst := by
      intro L; induction L <;> simp_all
    rw [hf, List.map_fst_zip]; simp

/-- `points(0)`: the start points of the segments are the vertices -/
theorem points0_fromVertices (vs : List Pt) : (Jordan.fromVertices vs).points0 = vs := by
  cases vs with
  | nil => rfl
  | cons v0 t =>
    rw [Geom.fromVertices_cons, Jordan.points0, List.map_map]
    have : ((fun s : Seg => s.headD Pt.zero) ∘ fun ab : Pt × Pt => [ab.1, ab.2]) = Prod.fst := rfl
    rw [this, List.map_fst_zip]; simp

/-- a polygon with `n` vertices has `n` straight segments -/
theorem length_fromVertices (vs : List Pt) :
    (Jordan.fromVertices vs).length = vs.length ∧ (Jordan.fromVertices vs).isPolygon = true := by
  refine ⟨?_, Geom.fromVertices_polygon vs⟩
  have := congrArg List.length (points0_fromVertices vs)
  simpa [Jordan.points0] using this

/-! ### open chains are rejected -/

/-- `from_segments` fails exactly on the non-empty chains that are not closed within the tolerance -/
theorem fromSegments_none_iff (j : Jordan) :
    Jordan.fromSegments j = none ↔ (j ≠ [] ∧ Jordan.closedChain j = false) := by
  cases j with
  | nil => simp [Jordan.fromSegments]
  | cons s0 rest =>
    rw [fromSegments_cons]
    cases Jordan.closedChain (s0 :: rest) <;> simp

/-- closedness means: every end point `==` (1e-9) the start point of the next segment, cyclically,
and no segment is empty -/
theorem closedChain_iff (s0 : Seg) (rest : Jordan) :
    Jordan.closedChain (s0 :: rest) = true ↔
      ∀ ab ∈ (s0 :: rest).zip (rest ++ [s0]), ∃ e s, ab.1.getLast? = some e ∧ ab.2.head? = some s
        ∧ Pt.eqTol e s = true := by
  rw [closedChain_cons, List.all_eq_true]
  constructor
  · intro h ab hab
    have := h ab hab
    split at this
    · rename_i e s he hs; exact ⟨e, s, he, hs, this⟩
    · cases this
  · intro h ab hab
    obtain ⟨e, s, he, hs, hes⟩ := h ab hab
    rw [he, hs]; exact hes

/-! ### what an accepted chain looks like -/

/-- same number of segments, and every segment keeps its number of control points (its degree) -/
theorem fromSegments_ok_lengths (j j' : Jordan) (h : Jordan.fromSegments j = some j') :
    j'.length = j.length ∧ List.map List.length j' = List.map List.length j := by
  cases j with
  | nil => simp [Jordan.fromSegments] at h; subst h; simp
  | cons s0 rest =>
    rw [fromSegments_cons] at h
    split at h
    · rename_i hcc
      simp only [Option.some.injEq] at h
      subst h
      have hne := closedChain_nonempty hcc
      constructor
      · simp
      · rw [List.map_map]
        have : List.map (List.length ∘ weld) ((s0 :: rest).zip (rest ++ [s0]))
            = List.map (List.length ∘ Prod.fst) ((s0 :: rest).zip (rest ++ [s0])) := by
          apply List.map_congr_left
          intro ab hab
          exact weld_length ab.1 ab.2 (hne ab hab)
        rw [this, ← List.map_map, List.map_fst_zip]; simp
    · cases h

/-- consecutive segments of the result share their junction EXACTLY (last of one = first of the next,
cyclically), for chains of segments of degree ≥ 1 -/
theorem fromSegments_ok_closed (j j' : Jordan) (h : Jordan.fromSegments j = some j')
    (hdeg : ∀ s ∈ j, 2 ≤ s.length) : Geom.ExactClosed j' := by
  cases j with
  | nil => simp [Jordan.fromSegments] at h; subst h; intro ab hab; simp at hab
  | cons s0 rest =>
    rw [fromSegments_cons] at h
    split at h
    · simp only [Option.some.injEq] at h
      subst h
      obtain ⟨n, T, hT⟩ := weldChain_head s0 rest s0
      have hw : (weld (s0, n)).headD Pt.zero = s0.headD Pt.zero := weld_headD _ _ (hdeg s0 (by simp))
      have := weldChain_closed rest s0 s0 (weld (s0, n)) (fun t ht => hdeg t (List.mem_cons_of_mem _ ht)) hw
      unfold Geom.ExactClosed
      unfold weldChain at this hT
      rw [hT] at this ⊢
      simpa using this
    · cases h

/-- … so the result satisfies `ClosedExact`, keeps the degrees, and is a fixed point of `from_segments` -/
theorem fromSegments_idempotent (j j' : Jordan) (h : Jordan.fromSegments j = some j') (hne : j ≠ [])
    (hdeg : ∀ s ∈ j, 2 ≤ s.length) : ClosedExact j' ∧ Jordan.fromSegments j' = some j' := by
  have hl := fromSegments_ok_lengths j j' h
  have hce : ClosedExact j' := by
    refine ⟨?_, ?_, fromSegments_ok_closed j j' h hdeg⟩
    · intro e; rw [e] at hl; exact hne (List.length_eq_zero_iff.mp hl.1.symm)
    · intro s hs e
      have : s.length ∈ List.map List.length j' := List.mem_map.mpr ⟨s, hs, rfl⟩
      rw [hl.2] at this
      obtain ⟨s', hs', hlen⟩ := List.mem_map.mp this
      have := hdeg s' hs'
      rw [hlen, e] at this; simp at this
  exact ⟨hce, fromSegments_of_closedExact hce⟩

/-! ### the box -/

/-- every control point of every segment is in the box of the curve -/
theorem box_contains_ctrl (j : Jordan) : ∀ s ∈ j, ∀ p ∈ s, (Jordan.box j).contains p = true := by
  intro s hs p hp
  exact ofPts_contains (List.mem_flatMap.mpr ⟨s, hs, hp⟩)

/-- the box encloses every point of the curve: every segment, every degree, every `t ∈ [0, 1]` -/
theorem box_contains_curve (j : Jordan) (s : Seg) (hs : s ∈ j) (hne : s ≠ []) (t : Rat)
    (h0 : 0 ≤ t) (h1 : t ≤ 1) : (Jordan.box j).contains (dcEval s t) = true := by
  have hin : InRect (Jordan.box j).lo (Jordan.box j).hi s :=
    fun p hp => (contains_iff _ _).mp (box_contains_ctrl j s hs p hp)
  obtain ⟨l, hl, hmem⟩ := dcEval_mem_levels s t hne
  exact (contains_iff _ _).mpr (dcLevels_inRect ⟨h0, h1⟩ s.length s hin l hl _ hmem)

/-! ### orientation -/

/-- the sign of the signed area is the orientation -/
theorem ccw_iff (j : Jordan) : j.ccw = true ↔ 0 < j.area := by simp [Jordan.ccw]

/-- reversing the vertex order negates `∫ x^a y^b dy` … -/
theorem integral_fromVertices_reverse (vs : List Pt) (a b : Nat) (h : a + b ≤ 15) :
    jordanExactVertical (Jordan.fromVertices vs.reverse) a b
      = - jordanExactVertical (Jordan.fromVertices vs) a b := jev_fromVertices_reverse vs a b h

/-- … in particular the signed area … -/
theorem area_fromVertices_reverse (vs : List Pt) :
    Jordan.area (Jordan.fromVertices vs.reverse) = - Jordan.area (Jordan.fromVertices vs) :=
  jev_fromVertices_reverse vs 1 0 (by omega)

/-- … and hence the orientation of every polygon of non-zero area -/
theorem ccw_fromVertices_reverse (vs : List Pt) (h : Jordan.area (Jordan.fromVertices vs) ≠ 0) :
    (Jordan.fromVertices vs.reverse).ccw = !(Jordan.fromVertices vs).ccw := by
  have e := area_fromVertices_reverse vs
  rcases lt_or_gt_of_ne h with hlt | hgt
  · have h1 : ¬ (0 < Jordan.area (Jordan.fromVertices vs)) := not_lt.mpr (le_of_lt hlt)
    have h2 : 0 < Jordan.area (Jordan.fromVertices vs.reverse) := by rw [e]; linarith
    simp [Jordan.ccw, h1, h2]
  · have h2 : ¬ (0 < Jordan.area (Jordan.fromVertices vs.reverse)) := by rw [e]; linarith
    simp [Jordan.ccw, hgt, h2]

/-! ### non-vacuity -/

example : Jordan.fromVertices [⟨0, 0⟩, ⟨4, 0⟩, ⟨0, 3⟩]
    = [[⟨0, 0⟩, ⟨4, 0⟩], [⟨4, 0⟩, ⟨0, 3⟩], [⟨0, 3⟩, ⟨0, 0⟩]] := by decide +kernel

/-- an open chain (the last segment ends at (0,1), not at the start (0,0)) is rejected -/
example : Jordan.fromSegments [[⟨0, 0⟩, ⟨4, 0⟩], [⟨4, 0⟩, ⟨0, 3⟩], [⟨0, 3⟩, ⟨0, 1⟩]] = none := by
  decide +kernel

/-- a chain with a gap in the middle is rejected too -/
example : Jordan.fromSegments [[⟨0, 0⟩, ⟨4, 0⟩], [⟨4, 1⟩, ⟨0, 3⟩], [⟨0, 3⟩, ⟨0, 0⟩]] = none := by
  decide +kernel

/-- a chain closed only up to 1e-10 is accepted and welded: the end point becomes the next start -/
example : Jordan.fromSegments [[⟨0, 0⟩, ⟨4, 0⟩], [⟨4, 1/10000000000⟩, ⟨2, 5⟩, ⟨0, 3⟩], [⟨0, 3⟩, ⟨0, 0⟩]]
    = some [[⟨0, 0⟩, ⟨4, 1/10000000000⟩], [⟨4, 1/10000000000⟩, ⟨2, 5⟩, ⟨0, 3⟩], [⟨0, 3⟩, ⟨0, 0⟩]] := by
  decide +kernel

/-- the degree hypothesis of `fromSegments_ok_closed` is needed: with a one-point segment the welded
chain is not exactly closed (the junction (4,0) / (4,1e-10) stays open) -/
example :
    Jordan.fromSegments [[⟨0, 0⟩, ⟨4, 0⟩], [⟨4, 0⟩], [⟨4, 1/10000000000⟩, ⟨0, 0⟩]]
      = some [[⟨0, 0⟩, ⟨4, 0⟩], [⟨4, 1/10000000000⟩], [⟨4, 1/10000000000⟩, ⟨0, 0⟩]] := by
  decide +kernel

example : (Jordan.fromVertices [⟨0, 0⟩, ⟨4, 0⟩, ⟨0, 3⟩]).ccw = true
    ∧ (Jordan.fromVertices [⟨0, 0⟩, ⟨4, 0⟩, ⟨0, 3⟩].reverse).ccw = false
    ∧ Jordan.area (Jordan.fromVertices [⟨0, 0⟩, ⟨4, 0⟩, ⟨0, 3⟩]) = 6 := by decide +kernel

example : Jordan.box [[⟨0, 0⟩, ⟨4, 0⟩], [⟨4, 0⟩, ⟨5, 2⟩, ⟨4, 4⟩], [⟨4, 4⟩, ⟨3, 5⟩, ⟨1, 5⟩, ⟨0, 0⟩]]
    = ⟨⟨0, 0⟩, ⟨5, 5⟩⟩ := by decide +kernel

end ShapeVerif.C17
