/-
C14 — intersection of two straight segments (`Intersection.lines`) and the flag filters of
`JordanCurve.intersection`.  Only property theorems here; helper lemmas are in Proofs/Geom.lean.
Quantifiers: ALL rational end points / parameters, ALL lists of segments.
-/
import ShapeVerif.Proofs.Geom
import ShapeVerif.Gen.Tables

namespace ShapeVerif.C14
open ShapeVerif ShapeVerif.Geom

/-- soundness: a reported pair `(u, v)` is a common point `A(u) = B(v)` with both parameters in [0,1] -/
theorem linesInter_sound (a0 a1 b0 b1 : Pt) (u v : Rat)
    (h : linesInter a0 a1 b0 b1 = some (u, v)) :
    lerp a0 a1 u = lerp b0 b1 v ∧ 0 ≤ u ∧ u ≤ 1 ∧ 0 ≤ v ∧ v ≤ 1 := by
  rw [linesInter_eq] at h
  split_ifs at h with hc
  simp only [Option.some.injEq, Prod.mk.injEq] at h
  obtain ⟨rfl, rfl⟩ := h
  exact ⟨li_point a0 a1 b0 b1 hc.1, hc.2⟩

/-- completeness + uniqueness: every transversal crossing inside both segments is reported, with
exactly its parameters -/
theorem linesInter_complete (a0 a1 b0 b1 : Pt) (u v : Rat)
    (hD : Pt.cross (a1 - a0) (b1 - b0) ≠ 0) (h : lerp a0 a1 u = lerp b0 b1 v)
    (hu : 0 ≤ u ∧ u ≤ 1) (hv : 0 ≤ v ∧ v ≤ 1) :
    linesInter a0 a1 b0 b1 = some (u, v) := by
  obtain ⟨eu, ev⟩ := li_unique a0 a1 b0 b1 u v hD h
  rw [linesInter_eq, eu, ev, if_pos ⟨hD, hu.1, hu.2, hv.1, hv.2⟩]

/-- parallel (or degenerate) segments are never reported by `lines` -/
theorem linesInter_parallel (a0 a1 b0 b1 : Pt) (hD : Pt.cross (a1 - a0) (b1 - b0) = 0) :
    linesInter a0 a1 b0 b1 = none := by
  rw [linesInter_eq, if_neg]; simp [hD]

/-- exact characterisation (soundness and completeness together) -/
theorem linesInter_iff (a0 a1 b0 b1 : Pt) (u v : Rat) :
    linesInter a0 a1 b0 b1 = some (u, v) ↔
      Pt.cross (a1 - a0) (b1 - b0) ≠ 0 ∧ lerp a0 a1 u = lerp b0 b1 v ∧ 0 ≤ u ∧ u ≤ 1 ∧ 0 ≤ v ∧ v ≤ 1 := by
  constructor
  · intro h
    refine ⟨?_, linesInter_sound a0 a1 b0 b1 u v h⟩
    intro hD; rw [linesInter_parallel a0 a1 b0 b1 hD] at h; simp at h
  · rintro ⟨hD, h, hu0, hu1, hv0, hv1⟩
    exact linesInter_complete a0 a1 b0 b1 u v hD h ⟨hu0, hu1⟩ ⟨hv0, hv1⟩

/-- symmetry: exchanging the two segments exchanges the two parameters -/
theorem linesInter_swap (a0 a1 b0 b1 : Pt) :
    linesInter b0 b1 a0 a1 = (linesInter a0 a1 b0 b1).map (fun p => (p.2, p.1)) := by
  rw [linesInter_eq, linesInter_eq]
  rw [liU_swap a0 a1 b0 b1, liV_swap a0 a1 b0 b1]
  simp only [cross_swap_ne a0 a1 b0 b1]
  split_ifs with h1 h2 h2
  · simp
  · exact absurd ⟨h1.1, h1.2.2.2.1, h1.2.2.2.2, h1.2.1, h1.2.2.1⟩ h2
  · exact absurd ⟨h2.1, h2.2.2.2.1, h2.2.2.2.2, h2.2.1, h2.2.2.1⟩ h1
  · simp

/-! ### `JordanCurve.intersection`: raw list and flag filters -/

/-- every raw entry points at existing segments, and is exactly what `segment & segment` gives there -/
theorem jordanInterRaw_mem (A B : Jordan) (c : Crossing) :
    c ∈ jordanInterRaw A B ↔
      ∃ s t, A[c.a]? = some s ∧ B[c.b]? = some t ∧ crossingOf c.a c.b s t = some c :=
  mem_jordanInterRaw A B c

theorem jordanInterRaw_index (A B : Jordan) (c : Crossing) (h : c ∈ jordanInterRaw A B) :
    c.a < A.length ∧ c.b < B.length := by
  obtain ⟨s, t, hs, ht, -⟩ := (mem_jordanInterRaw A B c).mp h
  exact ⟨(List.getElem?_eq_some_iff.mp hs).1, (List.getElem?_eq_some_iff.mp ht).1⟩

/-- for two straight segments, a raw `(u, v)` entry is a genuine common point of segments `a` and `b` -/
theorem jordanInterRaw_sound (A B : Jordan) (i k : Nat) (u v : Rat) (a0 a1 b0 b1 : Pt)
    (hA : A[i]? = some [a0, a1]) (hB : B[k]? = some [b0, b1])
    (h : (⟨i, k, some (u, v)⟩ : Crossing) ∈ jordanInterRaw A B) :
    lerp a0 a1 u = lerp b0 b1 v ∧ 0 ≤ u ∧ u ≤ 1 ∧ 0 ≤ v ∧ v ≤ 1 := by
  obtain ⟨s, t, hs, ht, hc⟩ := (mem_jordanInterRaw A B _).mp h
  simp only at hs ht hc
  rw [hA] at hs; rw [hB] at ht
  obtain rfl := Option.some.inj hs
  obtain rfl := Option.some.inj ht
  unfold crossingOf segAnd at hc
  split_ifs at hc
  · simp at hc
  simp only at hc
  cases hl : linesInter a0 a1 b0 b1 with
  | none => rw [hl] at hc; simp at hc
  | some p =>
    obtain ⟨u', v'⟩ := p
    rw [hl] at hc
    simp only [Option.some.injEq, Crossing.mk.injEq, true_and, Prod.mk.injEq] at hc
    obtain ⟨rfl, rfl⟩ := hc
    exact linesInter_sound a0 a1 b0 b1 _ _ hl

/-- the flags only filter: `equal_beziers = False` drops the `(None, None)` entries,
`end_points = False` drops the entries whose two parameters are both segment ends -/
theorem jordanInter_mem (A B : Jordan) (eq ep : Bool) (c : Crossing) :
    c ∈ jordanInter A B eq ep ↔
      c ∈ jordanInterRaw A B ∧ (eq = true ∨ c.uv.isSome = true) ∧
        (ep = true ∨ match c.uv with
          | none => True
          | some (u, v) => isEndPair u v = false) := by
  unfold jordanInter
  obtain ⟨a, b, uv⟩ := c
  cases eq <;> cases ep <;> cases uv <;> simp [List.mem_filter]

/-- with both flags set nothing is dropped -/
theorem jordanInter_all (A B : Jordan) : jordanInter A B true true = jordanInterRaw A B := by
  simp [jordanInter]

/-- the filtered list is a sublist of the raw list (order kept, nothing invented) -/
theorem jordanInter_sublist (A B : Jordan) (eq ep : Bool) :
    (jordanInter A B eq ep).Sublist (jordanInterRaw A B) := by
  unfold jordanInter
  cases eq <;> cases ep <;> simp only [if_true, if_false, Bool.false_eq_true]
  · exact (List.filter_sublist).trans List.filter_sublist
  · exact List.filter_sublist
  · exact List.filter_sublist
  · exact List.Sublist.refl _

/-! ### non-vacuity on concrete numbers -/
example : linesInter ⟨0,0⟩ ⟨2,0⟩ ⟨1,-1⟩ ⟨1,1⟩ = some (1/2, 1/2) := by decide +kernel
example : linesInter ⟨0,0⟩ ⟨4,2⟩ ⟨0,3⟩ ⟨3,0⟩ = some (1/2, 2/3) := by decide +kernel
example : linesInter ⟨0,0⟩ ⟨1,0⟩ ⟨2,-1⟩ ⟨2,1⟩ = none := by decide +kernel
example : linesInter ⟨0,0⟩ ⟨1,1⟩ ⟨1,0⟩ ⟨2,1⟩ = none := by decide +kernel
/-- two unit-overlapping squares cross twice; the shared-corner entries are end pairs -/
example :
    jordanInter (Jordan.fromVertices [⟨0,0⟩, ⟨2,0⟩, ⟨2,2⟩, ⟨0,2⟩])
      (Jordan.fromVertices [⟨1,1⟩, ⟨3,1⟩, ⟨3,3⟩, ⟨1,3⟩]) false false
      = [⟨1, 0, some (1/2, 1/2)⟩, ⟨2, 3, some (1/2, 1/2)⟩] := by decide +kernel


/-! ### tie to the source: the flag filters regenerated from `JordanCurve.intersection` on every run -/

/-- the keep-condition of the `end_points=False` filter written in the source is the model's `!isEndPair`, for ALL parameters,
and `(None, None)` entries survive it; `equal_beziers=False` removes exactly the `(None, None)` entries -/
theorem translated_flag_filters :
    Gen.equalBeziersFilterRemovesNone = true ∧ Gen.keepWithoutEndPoints none = true ∧
    ∀ u v : Rat, Gen.keepWithoutEndPoints (some (u, v)) = !(isEndPair u v) := by
  refine ⟨rfl, rfl, ?_⟩
  intro u v
  simp only [Gen.keepWithoutEndPoints, isEndPair]
  by_cases h1 : (0 : Rat) < u <;> by_cases h2 : u < 1 <;> by_cases h3 : (0 : Rat) < v <;> by_cases h4 : v < 1 <;> simp [h1, h2, h3, h4]

end ShapeVerif.C14
