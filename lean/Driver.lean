/-
Line-protocol driver for the executable model (Mathlib-free; built as the `driver` executable).
One command per input line, one canonical answer per output line.  Unknown or malformed
commands answer `bad-op` — the driver never defaults.
-/
import ShapeVerif.Model.Primitive
import ShapeVerif.Model.CurveIn
import ShapeVerif.Model.WindCurved

open ShapeVerif

abbrev P := StateT (List String) Option

def tok : P String := do
  match (← get) with
  | [] => failure
  | t :: rest => set rest; pure t

def pNat : P Nat := do
  let t ← tok
  match t.toNat? with
  | some n => pure n
  | none => failure

def pRat : P Rat := do
  let t ← tok
  match t.splitOn "/" with
  | [n] => match n.toInt? with
    | some i => pure (i : Rat)
    | none => failure
  | [n, d] => match n.toInt?, d.toNat? with
    | some i, some k => if k = 0 then failure else pure (mkRat i k)
    | _, _ => failure
  | _ => failure

def pBool : P Bool := do
  let t ← tok
  if t = "T" then pure true else if t = "F" then pure false else failure

def pPt : P Pt := do
  let x ← pRat
  let y ← pRat
  pure ⟨x, y⟩

def pList {α} (p : P α) : P (List α) := do
  let n ← pNat
  let rec go : Nat → List α → P (List α)
    | 0, acc => pure acc.reverse
    | k + 1, acc => do
      let a ← p
      go k (a :: acc)
  go n []

def pSeg : P Seg := pList pPt
def pJordan : P Jordan := pList pSeg

def pShape : P Shape := do
  let t ← tok
  match t with
  | "E" => pure Shape.empty
  | "W" => pure Shape.whole
  | "S" => do pure (Shape.simple (← pJordan))
  | "C" => do pure (Shape.connected (← pList pJordan))
  | "D" => do pure (Shape.disjoint (← pList (pList pJordan)))
  | _ => failure

def pOp : P BOp := do
  let t ← tok
  match t with
  | "or" => pure .or | "and" => pure .and | "sub" => pure .sub | "xor" => pure .xor
  | _ => failure

/-- prefix-coded expression: `L i` | `I e` | `B op l r` -/
partial def pExpr : P Expr := do
  let t ← tok
  match t with
  | "L" => do pure (.leaf (← pNat))
  | "I" => do pure (.inv (← pExpr))
  | "B" => do
    let op ← pOp
    let l ← pExpr
    let r ← pExpr
    pure (.bin op l r)
  | _ => failure

def fRat (r : Rat) : String := if r.den = 1 then toString r.num else s!"{r.num}/{r.den}"
def fPt (p : Pt) : String := s!"{fRat p.x} {fRat p.y}"
def fBool (b : Bool) : String := if b then "T" else "F"
def fList {α} (f : α → String) (l : List α) : String :=
  String.intercalate " " (toString l.length :: l.map f)
def fSeg (s : Seg) : String := fList fPt s
def fJordan (j : Jordan) : String := fList fSeg j
def fOptPt : Option Pt → String
  | none => "ok"
  | some p => s!"fail {fPt p}"
def fCrossing (c : Crossing) : String :=
  match c.uv with
  | none => s!"{c.a} {c.b} N N"
  | some (u, v) => s!"{c.a} {c.b} {fRat u} {fRat v}"
def fShape : Shape → String
  | .empty => "E"
  | .whole => "W"
  | .simple j => s!"S {fJordan j}"
  | .connected js => s!"C {fList fJordan js}"
  | .disjoint cs => s!"D {fList (fList fJordan) cs}"

def run (cmd : String) : P String := do
  match cmd with
  | "eval" => do let s ← pSeg; let t ← pRat; pure (fPt (evalSeg s t))
  | "bern" => do let s ← pSeg; let t ← pRat; pure (fPt (bernsteinSeg s t))
  | "dceval" => do let s ← pSeg; let t ← pRat; pure (fPt (dcEval s t))
  | "deriv" => do let k ← pNat; let s ← pSeg; let t ← pRat; pure (fPt (evalSeg (derivSegK k s) t))
  | "derivctrl" => do let k ← pNat; let s ← pSeg; pure (fSeg (derivSegK k s))
  | "split" => do let s ← pSeg; let ns ← pList pRat; pure (fList fSeg (splitMany s 0 (sortRat ns)))
  | "box" => do let s ← pSeg; let b := s.box; pure s!"{fPt b.lo} {fPt b.hi}"
  | "cleanseg" => do let s ← pSeg; pure (fSeg (cleanSeg s))
  | "decmat" => do let d ← pNat; let t ← pNat
                   pure (fList (fList fRat) (decT d t) ++ " | " ++ fList (fList fRat) (decE d t))
  | "caract" => do let d ← pNat; pure (fList (fun (r : List Int) => fList toString r) (caractMatrix d))
  | "comb" => do let n ← pNat; let i ← pNat; pure (toString (comb n i))
  | "nodes" => do let n ← pNat; pure (fList fRat (openNodes n))
  | "weights" => do let n ← pNat; pure (fList fRat (openWeights n))
  | "vertical" => do let s ← pSeg; let a ← pNat; let b ← pNat; pure (fRat (vertical s a b))
  | "verticaln" => do let s ← pSeg; let a ← pNat; let b ← pNat; let n ← pNat; pure (fRat (verticalN s a b n))
  | "exactvertical" => do let s ← pSeg; let a ← pNat; let b ← pNat; pure (fRat (exactVertical s a b))
  | "moment" => do let s ← pShape; let a ← pNat; let b ← pNat; pure (fRat (s.moment a b))
  | "quadmoment" => do let s ← pShape; let a ← pNat; let b ← pNat; pure (fRat (shapePolynomial s.jordans a b))
  | "jarea" => do let j ← pJordan; pure (fRat j.area)
  | "limitden" => do let r ← pRat; let m ← pNat; pure (fRat (limitDenominator r m))
  | "lines" => do
      let a0 ← pPt; let a1 ← pPt; let b0 ← pPt; let b1 ← pPt
      match linesInter a0 a1 b0 b1 with
      | none => pure "none"
      | some (u, v) => pure s!"{fRat u} {fRat v}"
  | "jinter" => do
      let a ← pJordan; let b ← pJordan; let e ← pBool; let p ← pBool
      pure (fList fCrossing (jordanInter a b e p))
  | "mem" => do let s ← pShape; let p ← pPt; let b ← pBool; pure (fBool (s.mem p b))
  | "memw" => do let s ← pShape; let p ← pPt; pure (fBool (s.memW p))
  | "onb" => do let s ← pShape; let p ← pPt; pure (fBool (s.jordans.any fun j => j.onBoundary p))
  | "wind" => do let j ← pJordan; let p ← pPt; pure (toString (wind j.edges p))
  | "windc" => do let j ← pJordan; let p ← pPt; pure s!"{windCurved j p} {fBool (offBoundaryCert j p)}"
  | "memc" => do
    let s ← pShape; let p ← pPt
    let cert := s.jordans.all fun j => offBoundaryCert j p
    let m := match s with
      | .empty => false
      | .whole => true
      | .simple j => memCurved j p
      | .connected js => js.all fun j => memCurved j p
      | .disjoint cs => cs.any fun c => c.all fun j => memCurved j p
    pure s!"{fBool m} {fBool cert}"
  | "jsplit" => do
      let j ← pJordan
      let ps ← pList (do let i ← pNat; let t ← pRat; pure (i, t))
      pure (fJordan (j.split ps))
  | "jinvert" => do let j ← pJordan; pure (fJordan j.invert)
  | "fromvertices" => do let vs ← pList pPt; pure (fJordan (Jordan.fromVertices vs))
  | "fromsegments" => do
      let j ← pJordan
      match Jordan.fromSegments j with
      | none => pure "reject"
      | some j' => pure (fJordan j')
  | "vertices" => do let j ← pJordan; pure (fList fPt j.vertices)
  | "jbox" => do let j ← pJordan; let b := j.box; pure s!"{fPt b.lo} {fPt b.hi}"
  | "regioncheck" => do
      let op ← pOp; let a ← pShape; let b ← pShape; let r ← pShape
      pure (fOptPt (regionCheckFind op a b r))
  | "regioneq" => do let a ← pShape; let b ← pShape; pure (fOptPt (regionEqFind a b))
  | "subset" => do let b ← pShape; let a ← pShape; pure (fOptPt (regionSubsetFind b a))
  | "compl" => do let a ← pShape; let r ← pShape
                  pure (fOptPt (slabFind (a.edges ++ r.edges) fun p => r.memW p == !(a.memW p)))
  | "rempty" => do let a ← pShape; pure (fBool (regionEmpty a))
  | "rwhole" => do let a ← pShape; pure (fBool (regionWhole a))
  | "compdisj" => do let cs ← pList (pList pJordan); pure (fBool (componentsDisjoint cs))
  | "exprcheck" => do
      let ls ← pList pShape; let e ← pExpr; let r ← pShape
      pure (fOptPt (exprCheckFind ls e r))
  | "samples" => do let ss ← pList pShape; pure (fList fPt (slabSamples (ss.flatMap Shape.edges)))
  | "nsamples" => do let ss ← pList pShape; pure (toString (slabSamples (ss.flatMap Shape.edges)).length)
  | "wf" => do let s ← pShape; pure (wfReport s)
  | "simplej" => do let j ← pJordan; pure (fBool (simpleJ j))
  | "genpos" => do let js ← pList pJordan; pure (fBool (generalPosition js))
  | "transversal" => do let a ← pShape; let b ← pShape; pure (fBool (transversal a b))
  | "curvein" => do let s ← pShape; let j ← pJordan; let b ← pBool; pure (fBool (curveIn s j b))
  | "cleanj" => do let j ← pJordan; pure (fJordan (cleanJ j))
  | "canon" => do let s ← pShape; pure (fShape (canonShape s))
  | "eqj" => do let a ← pJordan; let b ← pJordan; pure (fBool (eqJ a b))
  | "heap" => do heapCmd
  | "plot" => do let s ← pShape; pure (plotReport s)
  | "decode" => do
      let path ← pList (do let p ← pPt; let c ← pNat; pure (p, c))
      let codes := path.map fun (p, c) => (p, match c with
        | 1 => some PCode.moveto | 2 => some .lineto | 3 => some .curve3 | 4 => some .curve4
        | 79 => some .closepoly | _ => none)
      if codes.any fun pc => pc.2.isNone then pure "reject" else
      match decodePath (codes.filterMap fun (p, c) => c.map fun c => (p, c)) with
      | none => pure "reject"
      | some js => pure (fList fJordan js)
  | "prim" => do primCmd
  | _ => failure
where
  wfReport (s : Shape) : String := String.intercalate "," (wfProblems s)
  heapCmd : P String := do
    let ops ← pList pHeapOp
    pure (heapRun ops)
  /-- per operation: status and the answer of a signed-length query; at the end every variable's
  geometry, separation and cache consistency -/
  heapRun (ops : List HeapOp) : String :=
    let (h, outs) := ops.foldl (fun (acc : Heap × List String) op =>
      let (h', st) := acc.1.step op
      let o := match op with
        | .len v => match acc.1.lenAnswer v with
          | some g => st ++ " " ++ fJordan g
          | none => st
        | _ => st
      (h', acc.2 ++ [o])) (Heap.init, [])
    let vars := (sortBy (fun (a b : Nat × HCurve) => a.1 < b.1) h.vars).map fun (v, c) =>
      s!"{v} {fJordan (h.geom c)}"
    String.intercalate " ; " outs ++ " || " ++ String.intercalate " ; " vars
      ++ " || sep=" ++ fBool h.sep ++ " cache=" ++ fBool h.cacheOK
  plotReport (s : Shape) : String :=
    fList (fun (c : List Jordan) =>
      fList (fun (pc : Pt × PCode) => s!"{fPt pc.1} {pc.2.num}") (encodeComponent c)) (plotPlan s)
  pHeapOp : P HeapOp := do
    let t ← tok
    match t with
    | "poly" => do let v ← pNat; let vs ← pList pPt; pure (.poly v vs)
    | "move" => do let v ← pNat; let d ← pPt; pure (.move v d)
    | "scale" => do let v ← pNat; let sx ← pRat; let sy ← pRat; pure (.scale v sx sy)
    | "rot" => do let v ← pNat; let c ← pRat; let s ← pRat; pure (.rot v c s)
    | "invert" => do let v ← pNat; pure (.invert v)
    | "copy" => do let d ← pNat; let s ← pNat; pure (.copy d s)
    | "adopt" => do let d ← pNat; let s ← pNat; pure (.adopt d s)
    | "len" => do let v ← pNat; pure (.len v)
    | "split" => do
        let v ← pNat
        let ps ← pList (do let i ← pNat; let t ← pRat; pure (i, t))
        pure (.split v ps)
    | _ => failure
  primCmd : P String := do
    let t ← tok
    match t with
    | "square" => do let s ← pRat; let c ← pPt; pure (fList fPt (Primitive.square s c))
    | "triangle" => do let s ← pRat; let c ← pPt; pure (fList fPt (Primitive.triangle s c))
    | "regular4" => do let r ← pRat; let c ← pPt; pure (fList fPt (Primitive.regular4 r c))
    | "circlearc" => do let r ← pRat; let h ← pRat; pure (fSeg (Primitive.firstArc r h))
    | _ => failure

def answer (line : String) : String :=
  let toks := (line.splitOn " ").filter (· ≠ "")
  match toks with
  | [] => "bad-op"
  | cmd :: rest =>
    match (run cmd).run rest with
    | some (out, []) => out
    | _ => "bad-op"

partial def loop (h : IO.FS.Stream) (out : IO.FS.Stream) : IO Unit := do
  let line ← h.getLine
  if line.isEmpty then return ()
  let l := (line.replace "\n" "").replace "\r" ""
  out.putStrLn (answer l)
  out.flush
  loop h out

def main : IO Unit := do
  let out ← IO.getStdout
  loop (← IO.getStdin) out
  out.flush
