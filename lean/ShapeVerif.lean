-- This module serves as the root of the `ShapeVerif` library.
-- Import modules here that should be built as part of the library.
import ShapeVerif.Basic
