#!/usr/bin/env python3
"""tools/runmut.py <seeded-id> <patch.diff> [--props C01,C05] [--seed N]
Applies a patch to /repo, runs the quick checks (all 20 by default, in parallel), reverts the patch, and prints / records
which checks raise VIOLATION.  Never leaves /repo modified."""
import argparse, json, os, subprocess, sys, time
from concurrent.futures import ThreadPoolExecutor
V = os.path.dirname(os.path.dirname(os.path.abspath(__file__)))
ALL = [f"C{i:02d}" for i in range(1, 21)]


def run_check(pid, seed):
    env = dict(os.environ, VERIF_SEED=str(seed))
    t = time.time()
    p = subprocess.run(["./check", pid, "--tier", "quick"], cwd=V, capture_output=True, text=True, env=env, timeout=3600)
    lines = [l for l in p.stdout.splitlines() if l.startswith("VIOLATION") or l.startswith("KNOWN-FINDING")]
    first = next((l.strip()[:300] for l in p.stdout.splitlines() if l.startswith("   ")), "")
    return pid, p.returncode, lines, first, round(time.time() - t, 1)


def main():
    ap = argparse.ArgumentParser()
    ap.add_argument("sid"); ap.add_argument("patch")
    ap.add_argument("--props", default=",".join(ALL)); ap.add_argument("--seed", type=int, default=0); ap.add_argument("--jobs", type=int, default=10)
    a = ap.parse_args()
    st = subprocess.run("git -C /repo status --porcelain", shell=True, capture_output=True, text=True).stdout.strip()
    if st:
        sys.exit("refusing: /repo is not clean:\n" + st)
    r = subprocess.run(["git", "-C", "/repo", "apply", os.path.abspath(a.patch)], capture_output=True, text=True)
    if r.returncode != 0:
        sys.exit("patch does not apply: " + r.stderr)
    res = {}
    try:
        with ThreadPoolExecutor(a.jobs) as ex:
            for pid, rc, lines, first, dt in ex.map(lambda p: run_check(p, a.seed), a.props.split(",")):
                res[pid] = {"exit": rc, "lines": lines, "first_failure": first, "wall_s": dt}
                print(pid, "exit", rc, "|", "; ".join(l[:120] for l in lines if l.startswith("VIOLATION")), "|", first[:160], flush=True)
    finally:
        subprocess.run("git -C /repo checkout -- . && git -C /repo clean -fdq", shell=True)
    caught = sorted(p for p, v in res.items() if v["exit"] == 1)
    print("CAUGHT BY:", caught or "NOTHING", " infra failures:", sorted(p for p, v in res.items() if v["exit"] not in (0, 1)))
    out = os.path.join(V, "seeded", a.sid)
    os.makedirs(out, exist_ok=True)
    json.dump({"seed": a.seed, "results": res, "caught_by": caught}, open(os.path.join(out, "run.json"), "w"), indent=1)


if __name__ == "__main__":
    main()
