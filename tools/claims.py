claim("C18", "Lean 4 theorems on the Bezier model (ring identities per degree 1..6, de Casteljau induction for the box) + exact differential correspondence",
      "Theorems for all control points and parameters: segment(t) = Bernstein sum (deg 1-6), evaluation = de Casteljau, split pieces retrace the segment (deg 1-3), "
      "derivative = formal derivative (deg 1-3), box contains the curve for EVERY degree. The real segment(t), derivate(k), split, box are compared for exact Fraction equality with the model on random rational control polygons; "
      "point-on-curve projection and arctan2 winding are numerical and only checked on the corpus.",
      "Newton projection and arctan2 are outside the model.", "DESIGN.md §8 C18")
claim("C01", "Lean 4: verified slab-decomposition region checker (slabCheck_sound) run on the implementation's results + decide-checked truth tables of the operator methods regenerated from shape.py + induction over expressions",
      "Proved for all inputs: the translated BaseShape/Empty/Whole operator bodies and DefinedShape short-cut chains have the right truth tables (re-proved against the current source on every run), "
      "every nested expression denotes its pointwise meaning (induction), and the region checker is sound: an accepted result is right at every point off the edges outside finitely many vertical lines, a rejection yields a witness point. "
      "Boundary recombination (FollowPath) is not modelled: C01_partial — each executed result on generated general-position polygon expressions is certified for all points; curved/float operands are sampled.",
      "FollowPath is certified per run, not proved for all inputs; curved results sampled only.", "DESIGN.md §4, §8 C01")
