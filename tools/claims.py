claim("C18", "Lean 4 theorems on the Bezier model (ring identities per degree 1..6, de Casteljau induction for the box) + exact differential correspondence",
      "Theorems for all control points and parameters: segment(t) = Bernstein sum (deg 1-6), evaluation = de Casteljau, split pieces retrace the segment (deg 1-3), "
      "derivative = formal derivative (deg 1-3), box contains the curve for EVERY degree. The real segment(t), derivate(k), split, box are compared for exact Fraction equality with the model on random rational control polygons; "
      "point-on-curve projection and arctan2 winding are numerical and only checked on the corpus.",
      "Newton projection and arctan2 are outside the model.", "DESIGN.md §8 C18")
claim("C01", "Lean 4: verified slab-decomposition region checker (slabCheck_sound) run on the implementation's results + decide-checked truth tables of the operator methods regenerated from shape.py + induction over expressions",
      "Proved for all inputs: the translated BaseShape/Empty/Whole operator bodies and DefinedShape short-cut chains have the right truth tables (re-proved against the current source on every run), "
      "every nested expression denotes its pointwise meaning (induction), and the region checker is sound: an accepted result is right at every point off the edges outside finitely many vertical lines, a rejection yields a witness point. "
      "Boundary recombination (FollowPath) is not modelled: C01_partial — each executed result on generated general-position polygon expressions is certified for all points; curved/float operands are sampled.",
      "FollowPath is certified per run, not proved for all inputs; curved results sampled only.", "DESIGN.md §4, §8 C01")
claim("C04", "Lean 4: open Newton-Cotes exactness table (decide +kernel, n<=24) lifted by linearity to all polynomials, degree-count theorem vertical = exactVertical, closed-form Green anchors + exact differential correspondence",
      "Proved: the quadrature the code uses is exact for every polygon and all exponents a+b<=19, for quadratic boundaries up to a+b<=3, for cubic boundaries for the area (and provably NOT beyond: a kernel-checked counterexample), "
      "closed forms for rectangles/triangles/parabola segments, reversal negates, additivity over curves. The real IntegrateShape.polynomial/area/float are compared for exact Fraction equality with the model's exact integral on shapes of all kinds, "
      "and with the model of the code's own quadrature on curved rational shapes.",
      "Green's theorem for general regions is mathematics outside the model; float inputs compared to 1e-9.", "DESIGN.md §8 C04")
claim("C08", "Lean 4: heap/object-graph model with separation invariant and frame theorem proved by induction over all operation histories + decide-checked freshness of translated short-cut returns + history correspondence",
      "Proved for all histories: distinct objects own disjoint Point2D cells (sep_runOps), a mutation through one object changes no other (frame), copies are value-equal and fresh; the short-cut returns regenerated from shape.py are all copies or singletons. "
      "Random histories on the real JordanCurve/SimpleShape objects are compared exactly with the heap model, Point2D identity sets of distinct objects must be disjoint, and every operator/query on shapes of all kinds is followed by region-level snapshot comparison and mutate-one-compare-other.",
      "The heap model covers polygons (straight segments); operators on shapes are checked behaviourally.", "DESIGN.md §8 C08")
claim("C09", "Lean 4: heap model theorem that move/scale/rotate update every id-deduplicated cell exactly once (any sharing pattern), inverse round trips, area/winding covariance lemmas + exact correspondence on shapes of all kinds",
      "Proved: transform geometry = pointwise image for every sharing pattern of junction points, inverse transformations restore the geometry, area scales by sx*sy, winding numbers are invariant under translation and positive scaling (Props C09, C12). "
      "Real shapes of every kind are transformed by random rational move/scale sequences and compared exactly with the affine image (vertices, Fraction types, membership at arrangement cells, area, moments, identity of the returned object, == after the inverse); rotations to 1e-9.",
      "Rotation invariance of the ray-crossing definition of interior is not proved (checked).", "DESIGN.md §8 C09")
claim("C10", "Lean 4: cache-consistency invariant of the heap model proved over all histories (and its negation for the unrepaired code by a kernel-checked 3-step witness) + live-vs-deepcopy history correspondence",
      "Proved: in every reachable state a cached signed length is the length of the current geometry, so the length query answers like a fresh deep copy (cacheOK_runOps, lenAnswer_eq_fresh_copy); the pre-fix behaviour is refuted by `stale_counterexample`. "
      "Random histories on real objects: after every step every live object answers length/box/orientation/membership exactly like a fresh deep copy and like the model; operators repeated after unrelated queries; same script in fresh processes under several PYTHONHASHSEED values.",
      "Process-level determinism is exercised, not proved.", "DESIGN.md §8 C10")
