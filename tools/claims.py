claim("C18", "Lean 4 theorems on the Bezier model (ring identities per degree 1..6, de Casteljau induction for the box) + exact differential correspondence",
      "Theorems for all control points and parameters: segment(t) = Bernstein sum (deg 1-6), evaluation = de Casteljau, split pieces retrace the segment (deg 1-3), "
      "derivative = formal derivative (deg 1-3), box contains the curve for EVERY degree. The real segment(t), derivate(k), split, box are compared for exact Fraction equality with the model on random rational control polygons; "
      "point-on-curve projection and arctan2 winding are numerical and only checked on the corpus.",
      "Newton projection and arctan2 are outside the model.", "DESIGN.md §8 C18")
