#!/usr/bin/env python3
"""Writes /verif/MANIFEST.json from the table below (claimed properties = those with a harness module
and a Props file)."""
import json, os
V = os.path.dirname(os.path.dirname(os.path.abspath(__file__)))
BASE = ("Lean 4.33 kernel, axioms {propext, Classical.choice, Quot.sound} audited per theorem on every run; "
        "hand-written executable model (lean/ShapeVerif/Model) tied to /repo by the correspondence harness on every run "
        "(and by the translator for the table-like functions); pynurbs, numpy floating point, Fraction, matplotlib are "
        "modelled, not verified; 'interior' = crossing number of a vertical ray, moments via Green's theorem.")
CLAIMS = {}
def claim(pid, technique, text, note, ref):
    CLAIMS[pid] = dict(technique=technique, text=text, note=note, ref=ref)

exec(open(os.path.join(V, "tools", "claims.py")).read())

props = [json.loads(l) for l in open(os.path.join(V, "properties.jsonl"))]
checks, na = [], []
for p in props:
    pid = p["id"]
    have = os.path.exists(os.path.join(V, "harness", "props", pid.lower() + ".py")) and pid in CLAIMS
    if not have:
        na.append({"property_id": pid, "reason": "check not built yet in this round (design in DESIGN.md §8); not claimed"})
        continue
    c = CLAIMS[pid]
    checks.append({
        "property_id": pid,
        "quick_cmd": f"./check {pid} --tier quick",
        "thorough_cmd": f"./check {pid} --tier thorough",
        "evidence_file": f"evidence/{pid}.json",
        "replay_cmd_template": f"./check {pid} --replay {{path}}",
        "engine": "lean-model+correspondence",
        "level_claimed": {"category": "proof", "text": c["text"], "design_ref": c["ref"]},
        "level_note": c["note"] + " " + BASE,
        "technique": c["technique"],
    })
m = {
    "version": 1,
    "setup_cmd": "./check --setup",
    "hooks": {"guard": "SHAPEPY_VERIF", "enable": "no source hooks are needed: the harness imports shapepy from /repo/src and observes through public API, id(), sys.settrace and the Agg backend",
              "baseline_off_cmd": "cd /repo && /venv/bin/python -m pytest -ra -q -p no:cacheprovider --timeout=900 --continue-on-collection-errors",
              "source_commits": [], "add_only": True},
    "engines": [{"name": "lean-model+correspondence", "path": "lean/ harness/", "serves_properties": [c["property_id"] for c in checks],
                 "kind_free_text": "Lean 4 model + theorems (lake build, #print axioms audit) and a Python correspondence harness driving the real code and the compiled model over a line protocol"}],
    "checks": checks,
    "not_applicable": na,
    "notes": "Fix commits in /repo and known findings are listed in known_findings.json; DESIGN.md explains approach and trusted base.",
}
json.dump(m, open(os.path.join(V, "MANIFEST.json"), "w"), indent=1)
print("claimed", [c["property_id"] for c in checks], "not claimed", len(na))
