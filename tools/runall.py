#!/usr/bin/env python3
"""tools/runall.py [--seed N] [--tier quick] [--jobs 8]: run every check on the current tree, print one line each."""
import argparse, os, subprocess, time
from concurrent.futures import ThreadPoolExecutor
V = os.path.dirname(os.path.dirname(os.path.abspath(__file__)))
ap = argparse.ArgumentParser(); ap.add_argument("--seed", type=int, default=0); ap.add_argument("--tier", default="quick"); ap.add_argument("--jobs", type=int, default=8)
ap.add_argument("--props", default=",".join(f"C{i:02d}" for i in range(1, 21)))
a = ap.parse_args()
def run(pid):
    t = time.time()
    p = subprocess.run(["./check", pid, "--tier", a.tier], cwd=V, capture_output=True, text=True, env=dict(os.environ, VERIF_SEED=str(a.seed)))
    last = p.stdout.strip().splitlines()[-1] if p.stdout.strip() else p.stderr[-200:]
    viol = [l for l in p.stdout.splitlines() if l.startswith("VIOLATION") or l.startswith("   ")][:3]
    return pid, p.returncode, last, viol, time.time() - t
with ThreadPoolExecutor(a.jobs) as ex:
    for pid, rc, last, viol, dt in ex.map(run, a.props.split(",")):
        print(("OK  " if rc == 0 else f"RC{rc} "), last[:200], flush=True)
        for v in viol:
            print("      ", v[:300])
