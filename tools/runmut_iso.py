#!/usr/bin/env python3
"""tools/runmut_iso.py <seeded-id> [--props ...] [--seed N] [--jobs K]
Runs the quick checks against a seeded change WITHOUT touching /repo or /verif: a scratch git worktree of /repo (patch applied)
and a scratch copy of /verif (with its Lean build) under /tmp/vrun/<id>; results go to /verif/seeded/<id>/run.json; scratch removed."""
import argparse, json, os, shutil, subprocess, sys, time
from concurrent.futures import ThreadPoolExecutor
V = os.path.dirname(os.path.dirname(os.path.abspath(__file__)))
ALL = [f"C{i:02d}" for i in range(1, 21)]
ap = argparse.ArgumentParser()
ap.add_argument("sid"); ap.add_argument("--props", default=",".join(ALL)); ap.add_argument("--seed", type=int, default=0); ap.add_argument("--jobs", type=int, default=5)
a = ap.parse_args()
base = f"/tmp/vrun/{a.sid}"
shutil.rmtree(base, ignore_errors=True)
os.makedirs(base)
repo, ver = f"{base}/repo", f"{base}/verif"
subprocess.run(["git", "-C", "/repo", "worktree", "add", "-q", "--detach", repo, "HEAD"], check=True)
try:
    subprocess.run(["git", "-C", repo, "apply", f"{V}/seeded/{a.sid}/patch.diff"], check=True)
    # the COMMITTED state of /verif (so that edits in progress do not leak into the run) plus the current Lean build products
    os.makedirs(ver)
    subprocess.run(f"git -C {V} archive HEAD | tar -x -C {ver}", shell=True, check=True)
    subprocess.run(f"rsync -a {V}/lean/.lake {ver}/lean/", shell=True, check=True)
    def run(pid):
        t = time.time()
        env = dict(os.environ, VERIF_SEED=str(a.seed), VERIF_REPO=repo)
        p = subprocess.run(["./check", pid, "--tier", "quick"], cwd=ver, capture_output=True, text=True, env=env, timeout=5400)
        lines = [l for l in p.stdout.splitlines() if l.startswith("VIOLATION")]
        first = next((l.strip()[:400] for l in p.stdout.splitlines() if l.startswith("   ")), "")
        return pid, p.returncode, lines, first, round(time.time() - t, 1), p.stdout[-300:] if p.returncode not in (0, 1) else ""
    res = {}
    with ThreadPoolExecutor(a.jobs) as ex:
        for pid, rc, lines, first, dt, tail in ex.map(run, a.props.split(",")):
            res[pid] = {"exit": rc, "violation_lines": lines, "first_failure": first, "wall_s": dt}
            if tail:
                res[pid]["tail"] = tail
    caught = sorted(p for p, v in res.items() if v["exit"] == 1)
    with_input = sorted(p for p in caught if not any("no-failing-input-found" in l for l in res[p]["violation_lines"]))
    json.dump({"seed": a.seed, "caught_by": caught, "caught_with_failing_input": with_input, "results": res}, open(f"{V}/seeded/{a.sid}/run.json", "w"), indent=1)
    tgt = a.sid.split("-")[0]
    print(a.sid, "target", tgt, "caught" if tgt in caught else "MISSED", "| all:", caught, "| infra:", sorted(p for p, v in res.items() if v["exit"] not in (0, 1)))
finally:
    subprocess.run(["git", "-C", "/repo", "worktree", "remove", "--force", repo])
    shutil.rmtree(base, ignore_errors=True)
