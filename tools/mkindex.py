#!/usr/bin/env python3
"""Writes seeded/INDEX.md from seeded/*/meta.json and run.json."""
import json, os, glob
V = os.path.dirname(os.path.dirname(os.path.abspath(__file__)))
rows = []
for d in sorted(glob.glob(os.path.join(V, "seeded", "C*-m*"))):
    sid = os.path.basename(d)
    meta = json.load(open(os.path.join(d, "meta.json"))) if os.path.exists(os.path.join(d, "meta.json")) else {}
    run = json.load(open(os.path.join(d, "run.json"))) if os.path.exists(os.path.join(d, "run.json")) else None
    notes = open(os.path.join(d, "notes.md")).read() if os.path.exists(os.path.join(d, "notes.md")) else ""
    files = [l[6:] for l in open(os.path.join(d, "patch.diff")) if l.startswith("+++ b/")]
    tgt = sid.split("-")[0]
    if run:
        caught = run.get("caught_by", [])
        wi = run.get("caught_with_failing_input", caught)
        first = run["results"].get(tgt, {}).get("first_failure", "")[:160].replace("|", "/")
        rows.append((sid, tgt, ", ".join(f.strip() for f in files), "yes" if tgt in caught else "NO", ", ".join(c + ("" if c in wi else "*") for c in caught) or "—", first))
    else:
        rows.append((sid, tgt, ", ".join(f.strip() for f in files), "(not run)", "", ""))
with open(os.path.join(V, "seeded", "INDEX.md"), "w") as f:
    f.write("# Seeded changes (from independent sub-agents) and the checks that catch them\n\n"
            "Each directory holds `patch.diff` (apply with `git -C /repo apply`), `demo.py` (exit 0 on the unmodified sources, non-zero with the patch), `notes.md` "
            "(what it needs to manifest), `meta.json` (my confirmation in a scratch worktree: patch applies, 225 tests pass with it, demo fails with it and passes without) "
            "and `run.json` (quick checks run against it with `tools/runmut_iso.py`, seed 0).  `*` = violation reported without a failing input (`no-failing-input-found`).\n\n"
            "| id | property | files | caught by its own check | all checks that raise VIOLATION | first failing input reported by the target check |\n|---|---|---|---|---|---|\n")
    for r in rows:
        f.write("| " + " | ".join(r) + " |\n")
    n = len([r for r in rows if r[3] == "yes"])
    f.write(f"\n{n} of {len(rows)} seeded changes are caught by the check of the property they target.\n")
print(open(os.path.join(V, "seeded", "INDEX.md")).read()[-300:])
