#!/usr/bin/env python3
"""tools/confirm_mut.py Cxx N : confirm a sub-agent's mutation in ITS scratch worktree /tmp/mut/Cxx (never in /repo):
patch applies, full suite passes with it, demo fails with it and passes without.  On success copies patch.diff, demo.py, notes.md
to /verif/seeded/Cxx-mN/ and writes meta.json (confirmation part)."""
import json, os, shutil, subprocess, sys
pid, n = sys.argv[1], sys.argv[2]
wt = f"/tmp/mut/{pid}"
src = f"{wt}/out/mut{n}"
V = os.path.dirname(os.path.dirname(os.path.abspath(__file__)))
def sh(cmd, **kw):
    return subprocess.run(cmd, shell=True, capture_output=True, text=True, cwd=wt, **kw)
assert sh("git status --porcelain -- src tests").stdout.strip() == "", "worktree not clean"
r0 = sh(f"/venv/bin/python {src}/demo.py {wt}/src", timeout=600)
a = sh(f"git apply {src}/patch.diff")
assert a.returncode == 0, "patch does not apply: " + a.stderr
try:
    imp = sh(f"PYTHONPATH={wt}/src /venv/bin/python -c 'import shapepy; print(shapepy.__file__)'").stdout.strip().splitlines()[-1]
    t = sh(f"PYTHONPATH={wt}/src /venv/bin/python -m pytest -q -p no:cacheprovider --timeout=900 2>&1 | tail -1", timeout=3000).stdout.strip()
    r1 = sh(f"/venv/bin/python {src}/demo.py {wt}/src", timeout=600)
finally:
    sh("git checkout -- src tests")
ok = r0.returncode == 0 and r1.returncode != 0 and "225 passed" in t and imp.startswith(wt)
print(pid, n, "demo clean rc", r0.returncode, "| demo mutated rc", r1.returncode, "| suite:", t, "| import:", imp, "| CONFIRMED" if ok else "| NOT CONFIRMED")
if ok:
    out = f"{V}/seeded/{pid}-m{n}"
    os.makedirs(out, exist_ok=True)
    for f in ("patch.diff", "demo.py", "notes.md"):
        if os.path.exists(f"{src}/{f}"):
            shutil.copy(f"{src}/{f}", out)
    prop = open(f"{wt}/out/PROPERTY.txt").read().splitlines()[0]
    json.dump({"targets_property": pid, "property_title": prop, "source": "independent sub-agent given only the property text and a scratch worktree",
               "confirmed_in_scratch_worktree": {"demo_exit_clean": r0.returncode, "demo_exit_mutated": r1.returncode, "suite_with_mutation": t,
                                                  "commands": [f"git apply out/mut{n}/patch.diff", "PYTHONPATH=<wt>/src /venv/bin/python -m pytest -q -p no:cacheprovider --timeout=900",
                                                               f"/venv/bin/python out/mut{n}/demo.py <wt>/src", "git checkout -- src tests"]},
               "needs_to_manifest": "see notes.md", "demo_output_mutated_tail": r1.stdout[-600:]}, open(f"{out}/meta.json", "w"), indent=1)
