import sys, os, random, warnings, signal
warnings.filterwarnings('ignore')
sys.path.insert(0, os.environ.get('SRC', '/tmp/scratch/repo2/src'))
from fractions import Fraction as F
from shapepy import *
from fuzz1 import star_polygon, simple_check, general_position, wn, TO
def handler(s,f): raise TO()
signal.signal(signal.SIGALRM, handler)
ROT=[(F(1),F(0)),(F(3,5),F(4,5)),(F(5,13),F(12,13)),(F(-4,5),F(3,5)),(F(0),F(-1)),(F(20,29),F(-21,29))]
def T(k,c,s,dx,dy):
    return lambda p: (k*(c*p[0]-s*p[1])+dx, k*(s*p[0]+c*p[1])+dy)
def run(seed,N):
    rng=random.Random(seed); st={}; fails=[]
    def bump(x): st[x]=st.get(x,0)+1
    for it in range(N):
        va=star_polygon(rng,rng.randint(3,6),8,0,0); vb=star_polygon(rng,rng.randint(3,6),8,rng.randint(-6,6),rng.randint(-6,6))
        if not(simple_check(va) and simple_check(vb) and general_position(va,vb)): continue
        k=rng.choice([F(1,1000),F(1,100),F(1,7),F(3),F(1000),F(10**5)])
        c,s=rng.choice(ROT); dx=F(rng.randint(-10**6,10**6),rng.choice([1,3,7])); dy=F(rng.randint(-10**6,10**6))
        if rng.random()<0.3: dx=dy=F(0)
        t=T(k,c,s,dx,dy)
        op=rng.choice('|&-^')
        try:
            signal.alarm(60)
            A=Primitive.polygon(va); B=Primitive.polygon(vb)
            TA=Primitive.polygon([t(p) for p in va]); TB=Primitive.polygon([t(p) for p in vb])
            R=eval('A %s B'%op); TR=eval('TA %s TB'%op)
            signal.alarm(0)
        except BaseException as ex:
            signal.alarm(0); bump('raised'); fails.append(('raised',type(ex).__name__,str(ex)[:60],float(k),op)); continue
        bad=None
        if type(R)!=type(TR): bad=('kind',type(R).__name__,type(TR).__name__)
        else:
            try:
                fa=float(R); fb=float(TR)
                if fa not in (float('inf'),) and abs(fb-float(k*k)*fa)>1e-6*abs(float(k*k)*fa)+1e-12*float(k*k): bad=('area',fa,fb)
            except BaseException as ex: bad=('float-raised',type(ex).__name__)
        if not bad:
            for q in range(40):
                p=(F(rng.randint(-60,60),4)+F(1,7),F(rng.randint(-60,60),4)+F(1,11))
                if wn(va,p) is None or wn(vb,p) is None: continue
                try:
                    signal.alarm(30); g1=p in R; g2=t(p) in TR; signal.alarm(0)
                except BaseException as ex:
                    signal.alarm(0); bad=('contains-raised',type(ex).__name__,str(ex)[:60]); break
                if g1!=g2: bad=('mem',p,g1,g2); break
        if bad: bump('bad'); fails.append((bad,float(k),(float(dx),float(dy)),op))
        else: bump('ok:%g'%float(k))
    return st,fails
if __name__=='__main__':
    st,fails=run(int(sys.argv[1]),int(sys.argv[2])); print(st)
    for f in fails[:8]: print(str(f)[:300])
