import sys, os, random, warnings, signal
warnings.filterwarnings('ignore')
sys.path.insert(0, os.environ.get('SRC', '/tmp/scratch/repo2/src'))
from fractions import Fraction as F
from shapepy import *
from shapepy.shape import IntegrateShape
from fuzz1 import star_polygon, simple_check, general_position, TO
def M(S,a,b):
    if isinstance(S,(EmptyShape,WholeShape)): return F(0)
    return IntegrateShape.polynomial(S,a,b)
def run(seed,N):
    rng=random.Random(seed); st={}; fails=[]
    def bump(x): st[x]=st.get(x,0)+1
    for it in range(N):
        va=star_polygon(rng,rng.randint(3,7),8,0,0); vb=star_polygon(rng,rng.randint(3,7),8,rng.randint(-6,6),rng.randint(-6,6))
        if not(simple_check(va) and simple_check(vb) and general_position(va,vb)): continue
        if rng.random()<0.25: va=va[::-1]
        if rng.random()<0.25: vb=vb[::-1]
        try:
            def mk(): return Primitive.polygon(va), Primitive.polygon(vb)
            A,B=mk(); U=A|B
            A,B=mk(); I=A&B
            A,B=mk(); D=A-B
            A,B=mk(); X=A^B
            A,B=mk(); N_=~A
        except BaseException as ex:
            bump('raised'); fails.append(('raised',type(ex).__name__)); continue
        ok=True
        for a,b in [(0,0),(1,0),(0,1),(2,0),(1,1),(0,2)]:
            mA,mB,mU,mI,mD,mX,mN=[M(S,a,b) for S in (A,B,U,I,D,X,N_)]
            types={type(v).__name__ for v in (mA,mB,mU,mI,mD,mX,mN)}
            # Whole counted as 0: when a result is Whole, identities involve unbounded convention; skip those with Whole
            if any(isinstance(S,WholeShape) for S in (U,I,D,X)): bump('whole-skip'); break
            e1=mU+mI-(mA+mB); e2=mD-(mA-mI); e3=mX-(mU-mI); e4=mN+mA
            if (e1,e2,e3,e4)!=(0,0,0,0):
                ok=False; fails.append(((a,b),[float(e) for e in (e1,e2,e3,e4)],types,va,vb)); break
        else:
            bump('ok' if ok else 'bad'); continue
        if not ok: bump('bad')
    return st,fails
if __name__=='__main__':
    st,fails=run(int(sys.argv[1]),int(sys.argv[2])); print(st)
    for f in fails[:5]: print(str(f)[:500])
