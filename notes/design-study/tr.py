import ast, sys
src=open('/repo/src/shapepy/shape.py').read()
tree=ast.parse(src)
targets={'BaseShape':['__neg__','__add__','__mul__','__sub__','__xor__'],
 'EmptyShape':['__or__','__and__','__sub__','__invert__','__contains__'],
 'WholeShape':['__or__','__and__','__sub__','__invert__','__contains__'],
 'DefinedShape':['__or__','__and__','contains_shape','__invert__'],
 'SimpleShape':['_contains_point','__invert__'],
 'ConnectedShape':['_contains_point','__invert__'],'DisjointShape':['_contains_point']}
def expr(e):
    if isinstance(e,ast.Name): return e.id
    if isinstance(e,ast.BinOp):
        op={ast.BitOr:'or',ast.BitAnd:'and',ast.Sub:'sub',ast.BitXor:'xor'}[type(e.op)]
        return f'({op} {expr(e.left)} {expr(e.right)})'
    if isinstance(e,ast.UnaryOp) and isinstance(e.op,ast.Invert): return f'(inv {expr(e.operand)})'
    if isinstance(e,ast.UnaryOp) and isinstance(e.op,ast.Not): return f'(not {expr(e.operand)})'
    if isinstance(e,ast.Call):
        f=ast.unparse(e.func)
        return f'({f} '+' '.join(expr(a) for a in e.args)+')'
    if isinstance(e,ast.Compare):
        ops={ast.In:'in',ast.Is:'is',ast.Gt:'gt',ast.Eq:'eq',ast.NotIn:'notin'}
        return f'({ops[type(e.ops[0])]} {expr(e.left)} {expr(e.comparators[0])})'
    if isinstance(e,ast.IfExp): return f'(ite {expr(e.test)} {expr(e.body)} {expr(e.orelse)})'
    if isinstance(e,ast.Constant): return repr(e.value)
    if isinstance(e,ast.UnaryOp) and isinstance(e.op,ast.USub): return f'(neg {expr(e.operand)})'
    return 'UNSUPPORTED:'+ast.dump(e)[:60]
def stmt(s):
    if isinstance(s,ast.Return): return 'ret '+expr(s.value)
    if isinstance(s,ast.If) and not s.orelse: return 'if '+expr(s.test)+' { '+' ; '.join(stmt(x) for x in s.body)+' }'
    if isinstance(s,ast.Assert): return 'assert'
    if isinstance(s,ast.Expr) and isinstance(s.value,ast.Constant): return 'doc'
    if isinstance(s,ast.Assign): return 'let '+ast.unparse(s.targets[0])+' = '+expr(s.value)
    if isinstance(s,ast.For): return 'for '+ast.unparse(s.target)+' in '+expr(s.iter)+' { '+' ; '.join(stmt(x) for x in s.body)+' }'
    return 'UNSUPPORTED-STMT:'+type(s).__name__
for node in tree.body:
    if isinstance(node,ast.ClassDef) and node.name in targets:
        for f in node.body:
            if isinstance(f,ast.FunctionDef) and f.name in targets[node.name]:
                print(node.name+'.'+f.name, '::', ' | '.join(x for x in (stmt(s) for s in f.body) if x not in('doc','assert')))
