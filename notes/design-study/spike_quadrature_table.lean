-- open Newton–Cotes nodes and weights; weights by solving moment equations via Lagrange basis integration on list-polynomials
def openNodes (n : Nat) : List Rat := (List.range n).map (fun i => ((2*i+1 : Nat) : Rat) / ((2*n : Nat) : Rat))

-- polynomials as coefficient lists (low to high)
def padd : List Rat → List Rat → List Rat
  | [], q => q
  | p, [] => p
  | a::p, b::q => (a+b) :: padd p q
def pscale (k : Rat) (p : List Rat) : List Rat := p.map (k * ·)
def pmulX (p : List Rat) : List Rat := 0 :: p
def pmulLin (p : List Rat) (r : Rat) : List Rat := padd (pmulX p) (pscale (-r) p)   -- p * (X - r)
def pint01 (p : List Rat) : Rat := (p.zipIdx.map (fun (c, k) => c / ((k+1 : Nat) : Rat))).sum
def lagrangeNum (nodes : List Rat) (i : Nat) : List Rat :=
  (nodes.zipIdx.foldl (fun acc (x, j) => if j = i then acc else pmulLin acc x) [1])
def lagrangeDen (nodes : List Rat) (i : Nat) : Rat :=
  let xi := nodes.getD i 0
  (nodes.zipIdx.foldl (fun acc (x, j) => if j = i then acc else acc * (xi - x)) 1)
def openWeights (n : Nat) : List Rat :=
  let nodes := openNodes n
  (List.range n).map (fun i => pint01 (lagrangeNum nodes i) / lagrangeDen nodes i)

#eval openWeights 5
#eval openWeights 7

def quad (n : Nat) (f : Rat → Rat) : Rat := ((openNodes n).zip (openWeights n)).foldl (fun acc (x, w) => acc + w * f x) 0
def exactOnMonomials (n : Nat) : Bool := (List.range n).all (fun k => quad n (fun x => x ^ k) == 1 / ((k+1 : Nat) : Rat))
#eval (List.range 17).map exactOnMonomials
theorem exact_table : ∀ n ∈ List.range 13, 1 ≤ n → exactOnMonomials n = true := by decide +kernel
#print axioms exact_table
