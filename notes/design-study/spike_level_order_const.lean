import Mathlib.Tactic.Ring
import Mathlib.Tactic.Linarith
import Mathlib.Tactic.FieldSimp
import Mathlib.Tactic.Positivity

/-- order of two affine levels is constant on an interval that does not contain the abscissa of their intersection -/
theorem level_order_const (m1 c1 m2 c2 a b x x' : Rat)
    (hx : a < x ∧ x < b) (hx' : a < x' ∧ x' < b)
    (hcrit : m1 ≠ m2 → ((c2 - c1) / (m1 - m2) ≤ a ∨ b ≤ (c2 - c1) / (m1 - m2))) :
    (m1 * x + c1 < m2 * x + c2) ↔ (m1 * x' + c1 < m2 * x' + c2) := by
  by_cases hm : m1 = m2
  · subst hm; constructor <;> intro h <;> linarith
  · have hd : m1 - m2 ≠ 0 := sub_ne_zero.mpr hm
    set xs := (c2 - c1) / (m1 - m2) with hxs
    have key : ∀ z : Rat, m1 * z + c1 - (m2 * z + c2) = (m1 - m2) * (z - xs) := by
      intro z; rw [hxs]; field_simp; ring
    have hk := key x; have hk' := key x'
    rcases lt_or_gt_of_ne hd with hneg | hpos
    · rcases hcrit hm with h | h
      · -- xs ≤ a < x, x'
        have h1 : 0 < x - xs := by linarith [hx.1]
        have h2 : 0 < x' - xs := by linarith [hx'.1]
        have e1 : (m1 - m2) * (x - xs) < 0 := mul_neg_of_neg_of_pos hneg h1
        have e2 : (m1 - m2) * (x' - xs) < 0 := mul_neg_of_neg_of_pos hneg h2
        constructor <;> intro _ <;> linarith
      · have h1 : x - xs < 0 := by linarith [hx.2]
        have h2 : x' - xs < 0 := by linarith [hx'.2]
        have e1 : 0 < (m1 - m2) * (x - xs) := mul_pos_of_neg_of_neg hneg h1
        have e2 : 0 < (m1 - m2) * (x' - xs) := mul_pos_of_neg_of_neg hneg h2
        constructor <;> intro _ <;> linarith
    · rcases hcrit hm with h | h
      · have h1 : 0 < x - xs := by linarith [hx.1]
        have h2 : 0 < x' - xs := by linarith [hx'.1]
        have e1 : 0 < (m1 - m2) * (x - xs) := mul_pos hpos h1
        have e2 : 0 < (m1 - m2) * (x' - xs) := mul_pos hpos h2
        constructor <;> intro _ <;> linarith
      · have h1 : x - xs < 0 := by linarith [hx.2]
        have h2 : x' - xs < 0 := by linarith [hx'.2]
        have e1 : (m1 - m2) * (x - xs) < 0 := mul_neg_of_pos_of_neg hpos h1
        have e2 : (m1 - m2) * (x' - xs) < 0 := mul_neg_of_pos_of_neg hpos h2
        constructor <;> intro _ <;> linarith
#print axioms level_order_const
