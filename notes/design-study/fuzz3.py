import sys, os, random, math, copy, traceback, warnings, signal
warnings.filterwarnings('ignore')
sys.path.insert(0, os.environ.get('SRC', '/tmp/scratch/repo2/src'))
from fractions import Fraction as F
from shapepy import *
from shapepy.shape import IntegrateShape
import numpy as np
from fuzz1 import TO

def seg_cross(ctrl, p):
    # signed crossings of bezier (deg 1..3) with ray from p to +x ; returns (count_signed, mindist_est)
    px,py=p
    ys=[float(c[1])-py for c in ctrl]; xs=[float(c[0])-px for c in ctrl]
    n=len(ctrl)-1
    # power basis via numpy poly
    from math import comb
    def topow(vals):
        co=[0.0]*(n+1)
        for i,v in enumerate(vals):
            # B_{i,n}(t)= C(n,i) t^i (1-t)^(n-i)
            for k in range(n-i+1):
                co[i+k]+= v*comb(n,i)*comb(n-i,k)*(-1)**k
        return co  # co[j] coefficient of t^j
    cy=topow(ys); cx=topow(xs)
    roots=np.roots(cy[::-1]) if any(abs(c)>0 for c in cy[1:]) else []
    w=0
    for r in roots:
        if abs(r.imag)>1e-12: continue
        t=r.real
        if not (0<=t<1): continue
        x=sum(c*t**j for j,c in enumerate(cx))
        if x<=0: continue
        dy=sum(j*c*t**(j-1) for j,c in enumerate(cy) if j>0)
        w+= 1 if dy>0 else -1
    return w
def wind_jordan(j,p):
    return sum(seg_cross(s.ctrlpoints,p) for s in j.segments)
def dist_jordan(j,p):
    d=1e9
    for s in j.segments:
        for t in np.linspace(0,1,41):
            q=s(float(t)); d=min(d, math.hypot(float(q[0])-p[0], float(q[1])-p[1]))
    return d
def truth_simple(shape_j, p):
    w=wind_jordan(shape_j,p)
    return w
def handler(s,f): raise TO()
signal.signal(signal.SIGALRM, handler)

def mk(rng):
    kind=rng.choice(os.environ.get('KINDS','circle,square,poly,circle').split(','))
    cx,cy=rng.uniform(-1,1),rng.uniform(-1,1)
    if kind=='circle':
        return Primitive.circle(radius=rng.uniform(0.5,1.5), center=(cx,cy), ndivangle=rng.choice([4,8,16])), kind
    if kind=='square':
        return Primitive.square(side=rng.uniform(0.6,2.5), center=(cx,cy)), kind
    n=rng.randint(3,7)
    return Primitive.regular_polygon(n, radius=rng.uniform(0.5,1.5), center=(cx,cy)).rotate(rng.uniform(0,1)), kind

def run(seed,N):
    rng=random.Random(seed); st=dict(ok=0,raised=0,wrong=0,timeout=0,areabad=0); fails=[]
    for it in range(N):
        A,ka=mk(rng); B,kb=mk(rng)
        if rng.random()<0.2: A=~A
        if rng.random()<0.2: B=~B
        JA=copy.deepcopy(A.jordans[0]); JB=copy.deepcopy(B.jordans[0])
        sa=float(A)>0; sb=float(B)>0
        op=rng.choice(os.environ.get('OPS','|&-'))
        desc=(ka,kb,op,sa,sb)
        try:
            signal.alarm(120)
            R=eval('A %s B'%op)
            signal.alarm(0)
        except TO:
            st['timeout']+=1; fails.append(('timeout',seed,it,desc)); continue
        except BaseException as ex:
            signal.alarm(0); st['raised']+=1; fails.append(('raised',type(ex).__name__,str(ex)[:80],seed,it,desc)); continue
        bad=None
        for q in range(60):
            p=(rng.uniform(-3,3),rng.uniform(-3,3))
            if min(dist_jordan(JA,p),dist_jordan(JB,p))<2e-2: continue
            wa=wind_jordan(JA,p); wb=wind_jordan(JB,p)
            ina = (wa==1) if sa else (wa==0)
            inb = (wb==1) if sb else (wb==0)
            exp={'|':ina or inb,'&':ina and inb,'-':ina and not inb,'^':ina!=inb}[op]
            try:
                signal.alarm(60); got=p in R; signal.alarm(0)
            except BaseException as ex:
                signal.alarm(0); bad=('contains-raised',type(ex).__name__); break
            if got!=exp: bad=('wrong',p,exp,got); break
        if bad: st['wrong']+=1; fails.append((bad,seed,it,desc,type(R).__name__))
        else: st['ok']+=1
    return st,fails
if __name__=='__main__':
    st,fails=run(int(sys.argv[1]),int(sys.argv[2]))
    print(st)
    for f in fails[:10]: print(str(f)[:400])
