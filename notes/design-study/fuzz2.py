import sys, os, random, math, copy, traceback, warnings, signal
warnings.filterwarnings('ignore')
sys.path.insert(0, os.environ.get('SRC', '/tmp/scratch/repo2/src'))
from fractions import Fraction as F
from shapepy import *
from fuzz1 import star_polygon, simple_check, wn, general_position, TO, area2

# expression trees over k leaf polygons in mutual general position
def gen_leaves(rng, k):
    while True:
        leaves=[]
        for i in range(k):
            n = rng.randint(3,6)
            v = star_polygon(rng, n, rng.choice([4,6,8]), rng.randint(-5,5), rng.randint(-5,5))
            leaves.append(v)
        if not all(simple_check(v) for v in leaves): continue
        ok = all(general_position(leaves[i],leaves[j]) for i in range(k) for j in range(i+1,k))
        if ok: return leaves

def gen_expr(rng, k, depth):
    if depth==0 or rng.random()<0.2:
        return ('leaf', rng.randrange(k))
    r = rng.random()
    if r<0.15: return ('~', gen_expr(rng,k,depth-1))
    op = rng.choice(os.environ.get('OPS','|&-'))
    return (op, gen_expr(rng,k,depth-1), gen_expr(rng,k,depth-1))

def gen_readonce(rng, idxs):
    if len(idxs)==1:
        e=('leaf', idxs[0])
    else:
        c=rng.randint(1,len(idxs)-1)
        e=(rng.choice(os.environ.get('OPS','|&-')), gen_readonce(rng,idxs[:c]), gen_readonce(rng,idxs[c:]))
    if rng.random()<0.15: e=('~',e)
    return e
def concurrent(leaves):
    # any crossing point of leaf i,j lying on leaf k's boundary line? approximate: check triple concurrency of edges
    from itertools import combinations
    edges=[]
    for li,v in enumerate(leaves):
        for i in range(len(v)): edges.append((li,v[i],v[(i+1)%len(v)]))
    def inter(e1,e2):
        (_,a,b),(_,c,d)=e1,e2
        den=(b[0]-a[0])*(d[1]-c[1])-(b[1]-a[1])*(d[0]-c[0])
        if den==0: return None
        t=((c[0]-a[0])*(d[1]-c[1])-(c[1]-a[1])*(d[0]-c[0]))/den
        u=((c[0]-a[0])*(b[1]-a[1])-(c[1]-a[1])*(b[0]-a[0]))/den
        if 0<=t<=1 and 0<=u<=1: return (a[0]+t*(b[0]-a[0]), a[1]+t*(b[1]-a[1]))
        return None
    for e1,e2 in combinations(edges,2):
        if e1[0]==e2[0]: continue
        X=inter(e1,e2)
        if X is None: continue
        for e3 in edges:
            if e3[0] in (e1[0],e2[0]): continue
            _,a,b=e3
            if (b[0]-a[0])*(X[1]-a[1])-(b[1]-a[1])*(X[0]-a[0])==0: return True
    return False
def ev_shape(e, shapes):
    if e[0]=='leaf': return shapes[e[1]]
    if e[0]=='~': return ~ev_shape(e[1],shapes)
    a=ev_shape(e[1],shapes); b=ev_shape(e[2],shapes)
    return {'|':lambda:a|b,'&':lambda:a&b,'-':lambda:a-b,'^':lambda:a^b}[e[0]]()
def ev_truth(e, mem):
    if e[0]=='leaf': return mem[e[1]]
    if e[0]=='~': return not ev_truth(e[1],mem)
    a=ev_truth(e[1],mem); b=ev_truth(e[2],mem)
    return {'|':a or b,'&':a and b,'-':a and not b,'^':a!=b}[e[0]]
def show(e):
    if e[0]=='leaf': return 'L%d'%e[1]
    if e[0]=='~': return '~'+show(e[1])
    return '(%s %s %s)'%(show(e[1]),e[0],show(e[2]))
def handler(s,f): raise TO()
signal.signal(signal.SIGALRM, handler)
def run(seed,N,k,depth):
    rng=random.Random(seed)
    st=dict(ok=0,raised=0,wrong=0,timeout=0)
    fails=[]
    kinds={}
    for it in range(N):
        leaves=gen_leaves(rng,k)
        if depth<0:
            if concurrent(leaves): continue
            idx=list(range(k)); rng.shuffle(idx); e=gen_readonce(rng,idx)
        else:
            e=gen_expr(rng,k,depth)
        try:
            signal.alarm(60)
            shapes=[Primitive.polygon(v) for v in leaves]
            R=ev_shape(e,shapes)
            signal.alarm(0)
        except TO:
            st['timeout']+=1; fails.append(('timeout',show(e),leaves)); continue
        except BaseException as ex:
            signal.alarm(0)
            st['raised']+=1; fails.append(('raised',type(ex).__name__,show(e),leaves)); continue
        kinds[type(R).__name__]=kinds.get(type(R).__name__,0)+1
        bad=None
        for q in range(80):
            p=(F(rng.randint(-60,60),4)+F(1,7),F(rng.randint(-60,60),4)+F(1,11))
            ws=[wn(v,p) for v in leaves]
            if any(w is None for w in ws): continue
            exp=ev_truth(e,[w==1 for w in ws])
            try:
                signal.alarm(30); got = p in R; signal.alarm(0)
            except BaseException as ex:
                signal.alarm(0); bad=('contains-raised',type(ex).__name__); break
            if got!=exp: bad=('wrong',p,exp,got); break
        if bad: st['wrong']+=1; fails.append((bad,show(e),type(R).__name__,leaves))
        else: st['ok']+=1
    return st,fails,kinds
if __name__=='__main__':
    st,fails,kinds=run(int(sys.argv[1]),int(sys.argv[2]),int(sys.argv[3]),int(sys.argv[4]))
    print(st,kinds)
    for f in fails[:6]: print(str(f)[:1500])
