import sys, warnings, copy
warnings.filterwarnings('ignore')
sys.path.insert(0, sys.argv[1])
from shapepy import *
class Boom(BaseException): pass
def run_with_fault(fn, k):
    cnt=[0]
    def tracer(frame, event, arg):
        if event=='call' and 'shapepy' in frame.f_code.co_filename:
            cnt[0]+=1
            if k is not None and cnt[0]==k:
                raise Boom()
        return None
    sys.settrace(tracer)
    try:
        try: fn(); out='ok'
        except BaseException: out='boom'
    finally:
        sys.settrace(None)
    return out, cnt[0]
def snap(s): return [(tuple(map(tuple,j.vertices)), float(j)>0) for j in s.jordans]
big=Primitive.square(4); hole=Primitive.square(2); C=big-hole
S=Primitive.square(6)
out,N=run_with_fault(lambda: C in S, None)
print('calls', N, out)
bad=[]
import random
for k in sorted(random.Random(0).sample(range(1,N+1),150)):
    C2=copy.deepcopy(C); S2=copy.deepcopy(S)
    s0=(snap(C2),snap(S2), float(C2), float(S2))
    out,_=run_with_fault(lambda: C2 in S2, k)
    s1=(snap(C2),snap(S2), float(C2), float(S2))
    if s0!=s1: bad.append(k)
print('crash points leaving operands changed:', len(bad), bad[:10])
