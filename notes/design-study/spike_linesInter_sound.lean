import Mathlib.Tactic.Ring
import Mathlib.Tactic.FieldSimp
import Mathlib.Tactic.Linarith

structure Pt where
  x : Rat
  y : Rat
deriving DecidableEq, Repr

namespace Pt
def add (p q : Pt) : Pt := ⟨p.x + q.x, p.y + q.y⟩
def sub (p q : Pt) : Pt := ⟨p.x - q.x, p.y - q.y⟩
def smul (k : Rat) (p : Pt) : Pt := ⟨k * p.x, k * p.y⟩
def cross (p q : Pt) : Rat := p.x * q.y - p.y * q.x
end Pt

def lineEval (a b : Pt) (t : Rat) : Pt := Pt.add a (Pt.smul t (Pt.sub b a))

/-- model of Intersection.lines -/
def linesInter (a0 a1 b0 b1 : Pt) : Option (Rat × Rat) :=
  let v0 := Pt.sub a1 a0
  let v1 := Pt.sub b1 b0
  let d0 := Pt.sub b0 a0
  let den := Pt.cross v0 v1
  if den ≠ 0 then
    let p0 := Pt.cross d0 v1 / den
    let p1 := Pt.cross d0 v0 / den
    if p0 < 0 ∨ 1 < p0 then none
    else if p1 < 0 ∨ 1 < p1 then none
    else some (p0, p1)
  else none

theorem aux (ax bx vx wx n m D : Rat) (hD : D ≠ 0) (h : D*ax + n*vx = D*bx + m*wx) :
    ax + n/D*vx = bx + m/D*wx := by
  field_simp
  linarith

theorem linesInter_sound (a0 a1 b0 b1 : Pt) (u v : Rat)
    (h : linesInter a0 a1 b0 b1 = some (u, v)) :
    lineEval a0 a1 u = lineEval b0 b1 v ∧ 0 ≤ u ∧ u ≤ 1 ∧ 0 ≤ v ∧ v ≤ 1 := by
  unfold linesInter at h
  simp only at h
  split at h
  · rename_i hden
    split at h
    · simp at h
    · split at h
      · simp at h
      · rename_i h1 h2
        simp only [Option.some.injEq, Prod.mk.injEq] at h
        obtain ⟨hu, hv⟩ := h
        push Not at h1 h2
        refine ⟨?_, by rw [← hu]; exact h1.1, by rw [← hu]; exact h1.2, by rw [← hv]; exact h2.1, by rw [← hv]; exact h2.2⟩
        subst hu hv
        simp only [lineEval, Pt.add, Pt.smul, Pt.sub, Pt.cross, Pt.mk.injEq] at hden ⊢
        constructor
        · apply aux _ _ _ _ _ _ _ hden; ring
        · apply aux _ _ _ _ _ _ _ hden; ring
  · simp at h

#print axioms linesInter_sound
#eval linesInter ⟨0,0⟩ ⟨2,0⟩ ⟨1,-1⟩ ⟨1,1⟩
