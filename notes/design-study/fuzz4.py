import sys, os, random, warnings, signal
warnings.filterwarnings('ignore')
sys.path.insert(0, os.environ.get('SRC', '/tmp/scratch/repo2/src'))
from fractions import Fraction as F
from shapepy import *
from fuzz1 import wn, TO
from fuzz2 import gen_leaves, gen_readonce, ev_shape, ev_truth, show, concurrent
def handler(s,f): raise TO()
signal.signal(signal.SIGALRM, handler)
def run(seed,N):
    rng=random.Random(seed); st={}; fails=[]
    def bump(k): st[k]=st.get(k,0)+1
    for it in range(N):
        k=3
        leaves=gen_leaves(rng,k)
        if concurrent(leaves): continue
        idx=list(range(k)); rng.shuffle(idx)
        eX=gen_readonce(rng, idx[:2]); z=('leaf',idx[2])
        if rng.random()<0.3: z=('~',z)
        rel=rng.choice(['and','or','sub','indep'])
        eY={'and':('&',eX,z),'or':('|',eX,z),'sub':('-',eX,z),'indep':z}[rel]
        try:
            signal.alarm(60)
            shapes=[Primitive.polygon(v) for v in leaves]
            X=ev_shape(eX,shapes)
            shapes=[Primitive.polygon(v) for v in leaves]
            Y=ev_shape(eY,shapes)
            a = Y in X; b = X in Y
            signal.alarm(0)
        except BaseException as ex:
            signal.alarm(0); bump('raised'); fails.append(('raised',type(ex).__name__,show(eX),show(eY),leaves)); continue
        # sampled truth
        y_sub_x=True; x_sub_y=True
        for q in range(400):
            p=(F(rng.randint(-60,60),4)+F(1,7),F(rng.randint(-60,60),4)+F(1,11))
            ws=[wn(v,p) for v in leaves]
            if any(w is None for w in ws): continue
            mem=[w==1 for w in ws]
            tx=ev_truth(eX,mem); ty=ev_truth(eY,mem)
            if ty and not tx: y_sub_x=False
            if tx and not ty: x_sub_y=False
        kinds=(type(X).__name__[:3],type(Y).__name__[:3])
        for name,got,tr in (('Y in X',a,y_sub_x),('X in Y',b,x_sub_y)):
            if got and not tr: bump('WRONG-true'); fails.append(('claims subset but not',name,kinds,rel,show(eX),show(eY),leaves))
            elif (not got) and tr: bump('suspect-false'); fails.append(('says not subset, sampling found no witness',name,kinds,rel,show(eX),show(eY),leaves))
            else: bump('ok')
    return st,fails
if __name__=='__main__':
    st,fails=run(int(sys.argv[1]),int(sys.argv[2])); print(st)
    for f in fails[:6]: print(str(f)[:700])
