import sys, os, random, math, copy, traceback, warnings, signal
warnings.filterwarnings('ignore')
sys.path.insert(0, os.environ.get('SRC', '/tmp/scratch/repo2/src'))
from fractions import Fraction as F
import shapepy
from shapepy import *
from shapepy.shape import IntegrateShape
print(shapepy.__file__)

def area2(vs):
    return sum(vs[i][0]*vs[(i+1)%len(vs)][1]-vs[(i+1)%len(vs)][0]*vs[i][1] for i in range(len(vs)))

def star_polygon(rng, n, R, cx, cy):
    # star-shaped polygon with rational vertices around center, CCW
    angs = sorted(rng.sample(range(0, 360, 5), n))
    vs=[]
    for a in angs:
        r = rng.randint(R//2, R)
        x = F(round(r*math.cos(math.radians(a))*4),4)+cx
        y = F(round(r*math.sin(math.radians(a))*4),4)+cy
        vs.append((x,y))
    return vs

def _cr(o,a,b): return (a[0]-o[0])*(b[1]-o[1])-(a[1]-o[1])*(b[0]-o[0])
def seg_inter(a,b,c,d):
    # closed segments ab, cd intersect?
    d1=_cr(a,b,c); d2=_cr(a,b,d); d3=_cr(c,d,a); d4=_cr(c,d,b)
    if ((d1>0 and d2<0) or (d1<0 and d2>0)) and ((d3>0 and d4<0) or (d3<0 and d4>0)): return True
    def on(a,b,c): return min(a[0],b[0])<=c[0]<=max(a[0],b[0]) and min(a[1],b[1])<=c[1]<=max(a[1],b[1])
    if d1==0 and on(a,b,c): return True
    if d2==0 and on(a,b,d): return True
    if d3==0 and on(c,d,a): return True
    if d4==0 and on(c,d,b): return True
    return False
def simple_check(vs):
    n=len(vs)
    if area2(vs) <= 0 or len(set(vs)) != n: return False
    for i in range(n):
        if _cr(vs[i-1],vs[i],vs[(i+1)%n])==0: return False
        for j in range(i+1,n):
            if j==i or (j+1)%n==i or (i+1)%n==j: continue
            if seg_inter(vs[i],vs[(i+1)%n],vs[j],vs[(j+1)%n]): return False
    return True

def wn(vs, p):
    # exact winding number for p not on boundary; returns None if on boundary
    px,py = p; w=0
    n=len(vs)
    for i in range(n):
        x0,y0 = vs[i]; x1,y1 = vs[(i+1)%n]
        cr = (x0-px)*(y1-py)-(x1-px)*(y0-py)
        if cr==0 and min(x0,x1)<=px<=max(x0,x1) and min(y0,y1)<=py<=max(y0,y1): return None
        if y0<=py:
            if y1>py and cr>0: w+=1
        else:
            if y1<=py and cr<0: w-=1
    return w

def cross(o,a,b): return (a[0]-o[0])*(b[1]-o[1])-(a[1]-o[1])*(b[0]-o[0])
def general_position(va,vb):
    # no vertex of one polygon collinear with an edge of the other (within the edge's line), no parallel edges
    for P,Q in ((va,vb),(vb,va)):
        n=len(Q)
        for v in P:
            for i in range(n):
                if cross(Q[i],Q[(i+1)%n],v)==0: return False
    for i in range(len(va)):
        a0,a1=va[i],va[(i+1)%len(va)]
        for j in range(len(vb)):
            b0,b1=vb[j],vb[(j+1)%len(vb)]
            if (a1[0]-a0[0])*(b1[1]-b0[1])-(a1[1]-a0[1])*(b1[0]-b0[0])==0: return False
    return True
class TO(Exception): pass
def handler(s,f): raise TO()
signal.signal(signal.SIGALRM, handler)

def mem_shape_truth(polys_signed, p):
    pass

def run(seed, N):
    rng = random.Random(seed)
    stats = dict(ok=0, raised=0, wrong=0, timeout=0, skipped=0)
    fails=[]
    for it in range(N):
        na, nb = rng.randint(3,7), rng.randint(3,7)
        va = star_polygon(rng, na, 8, 0, 0)
        vb = star_polygon(rng, nb, 8, rng.randint(-6,6), rng.randint(-6,6))
        if not (simple_check(va) and simple_check(vb)): stats['skipped']+=1; continue
        if not general_position(va,vb): stats['skipped']+=1; continue
        inva, invb = rng.random()<0.25, rng.random()<0.25
        if inva: va = va[::-1]
        if invb: vb = vb[::-1]
        op = rng.choice(os.environ.get('OPS','|&-^'))
        try:
            A = Primitive.polygon(va); B = Primitive.polygon(vb)
            signal.alarm(20)
            R = eval('A %s B'%op)
            signal.alarm(0)
        except TO:
            stats['timeout']+=1; fails.append(('timeout',seed,it,va,vb,op)); continue
        except BaseException as e:
            signal.alarm(0)
            stats['raised']+=1; fails.append(('raised',type(e).__name__,seed,it,va,vb,op)); continue
        # check sample points
        bad=None
        for k in range(60):
            p = (F(rng.randint(-60,60),4)+F(1,7), F(rng.randint(-60,60),4)+F(1,11))
            wa, wb = wn(va,p), wn(vb,p)
            if wa is None or wb is None: continue
            ina = (wa==1) if not inva else (wa==0)
            inb = (wb==1) if not invb else (wb==0)
            exp = {'|':ina or inb,'&':ina and inb,'-':ina and not inb,'^':ina!=inb}[op]
            try:
                signal.alarm(20)
                got = p in R
                signal.alarm(0)
            except BaseException as e:
                signal.alarm(0)
                bad=('contains-raised',type(e).__name__,p); break
            if got!=exp:
                bad=('wrong',p,exp,got); break
        if bad:
            stats['wrong']+=1; fails.append((bad,seed,it,va,vb,op,type(R).__name__))
        else: stats['ok']+=1
    return stats, fails
if __name__=='__main__':
    seed=int(sys.argv[1]); N=int(sys.argv[2])
    st, fails = run(seed,N)
    print(st)
    for f in fails[:8]: print(f)
