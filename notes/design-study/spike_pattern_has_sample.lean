import Mathlib.Tactic.Ring
import Mathlib.Tactic.Linarith
import Mathlib.Tactic.FieldSimp

/-- abstract non-vertical edge: x-range [lo,hi), level m*x+c -/
structure AEdge where
  lo : Rat
  hi : Rat
  m : Rat
  c : Rat

namespace AEdge
def level (e : AEdge) (x : Rat) : Rat := e.m * x + e.c
def inRange (e : AEdge) (x : Rat) : Prop := e.lo ≤ x ∧ x < e.hi
def below (e : AEdge) (x y : Rat) : Prop := e.inRange x ∧ e.level x < y
def spans (e : AEdge) (a b : Rat) : Prop := e.lo ≤ a ∧ b ≤ e.hi
end AEdge

/-- `crit` contains every range end and every relevant line intersection abscissa -/
structure CritOK (U : List AEdge) (crit : List Rat) : Prop where
  ends : ∀ e ∈ U, e.lo ∈ crit ∧ e.hi ∈ crit
  inter : ∀ e ∈ U, ∀ f ∈ U, e.m ≠ f.m →
    let xs := (f.c - e.c) / (e.m - f.m)
    (e.inRange xs ∧ f.inRange xs) → xs ∈ crit

def IsSlab (crit : List Rat) (a b : Rat) : Prop := a < b ∧ ∀ c ∈ crit, c ≤ a ∨ b ≤ c

theorem range_const {U crit a b} (h : CritOK U crit) (hs : IsSlab crit a b) {e} (he : e ∈ U)
    {x : Rat} (hx : a < x ∧ x < b) : e.inRange x ↔ e.spans a b := by
  obtain ⟨hlo, hhi⟩ := h.ends e he
  unfold AEdge.inRange AEdge.spans
  constructor
  · rintro ⟨h1, h2⟩
    constructor
    · rcases hs.2 _ hlo with h' | h'
      · exact h'
      · linarith [hx.2]
    · rcases hs.2 _ hhi with h' | h'
      · linarith [hx.1]
      · exact h'
  · rintro ⟨h1, h2⟩
    exact ⟨by linarith [hx.1], by linarith [hx.2]⟩

theorem level_order_const (m1 c1 m2 c2 a b x x' : Rat)
    (hx : a < x ∧ x < b) (hx' : a < x' ∧ x' < b)
    (hcrit : m1 ≠ m2 → ((c2 - c1) / (m1 - m2) ≤ a ∨ b ≤ (c2 - c1) / (m1 - m2))) :
    (m1 * x + c1 < m2 * x + c2) ↔ (m1 * x' + c1 < m2 * x' + c2) := by
  by_cases hm : m1 = m2
  · subst hm; constructor <;> intro h <;> linarith
  · have hd : m1 - m2 ≠ 0 := sub_ne_zero.mpr hm
    set xs := (c2 - c1) / (m1 - m2) with hxs
    have key : ∀ z : Rat, m1 * z + c1 - (m2 * z + c2) = (m1 - m2) * (z - xs) := by
      intro z; rw [hxs]; field_simp; ring
    have hk := key x; have hk' := key x'
    rcases lt_or_gt_of_ne hd with hneg | hpos
    · rcases hcrit hm with h | h
      · have h1 : 0 < x - xs := by linarith [hx.1]
        have h2 : 0 < x' - xs := by linarith [hx'.1]
        have e1 : (m1 - m2) * (x - xs) < 0 := mul_neg_of_neg_of_pos hneg h1
        have e2 : (m1 - m2) * (x' - xs) < 0 := mul_neg_of_neg_of_pos hneg h2
        constructor <;> intro _ <;> linarith
      · have h1 : x - xs < 0 := by linarith [hx.2]
        have h2 : x' - xs < 0 := by linarith [hx'.2]
        have e1 : 0 < (m1 - m2) * (x - xs) := mul_pos_of_neg_of_neg hneg h1
        have e2 : 0 < (m1 - m2) * (x' - xs) := mul_pos_of_neg_of_neg hneg h2
        constructor <;> intro _ <;> linarith
    · rcases hcrit hm with h | h
      · have h1 : 0 < x - xs := by linarith [hx.1]
        have h2 : 0 < x' - xs := by linarith [hx'.1]
        have e1 : 0 < (m1 - m2) * (x - xs) := mul_pos hpos h1
        have e2 : 0 < (m1 - m2) * (x' - xs) := mul_pos hpos h2
        constructor <;> intro _ <;> linarith
      · have h1 : x - xs < 0 := by linarith [hx.2]
        have h2 : x' - xs < 0 := by linarith [hx'.2]
        have e1 : (m1 - m2) * (x - xs) < 0 := mul_neg_of_pos_of_neg hpos h1
        have e2 : (m1 - m2) * (x' - xs) < 0 := mul_neg_of_pos_of_neg hpos h2
        constructor <;> intro _ <;> linarith

/-- two edges spanning the slab keep their order of levels throughout the slab -/
theorem span_order_const {U crit a b} (h : CritOK U crit) (hs : IsSlab crit a b)
    {e f} (he : e ∈ U) (hf : f ∈ U) (hes : e.spans a b) (hfs : f.spans a b)
    {x x' : Rat} (hx : a < x ∧ x < b) (hx' : a < x' ∧ x' < b) :
    (e.level x < f.level x) ↔ (e.level x' < f.level x') := by
  unfold AEdge.level
  apply level_order_const _ _ _ _ a b x x' hx hx'
  intro hm
  by_contra hcon
  push Not at hcon
  obtain ⟨h1, h2⟩ := hcon
  have hin : e.inRange ((f.c - e.c) / (e.m - f.m)) ∧ f.inRange ((f.c - e.c) / (e.m - f.m)) := by
    unfold AEdge.inRange AEdge.spans at *
    exact ⟨⟨by linarith [hes.1], by linarith [hes.2]⟩, ⟨by linarith [hfs.1], by linarith [hfs.2]⟩⟩
  have hmem := h.inter e he f hf hm hin
  rcases hs.2 _ hmem with h' | h'
  · linarith
  · linarith

theorem exists_max_level (l : List AEdge) (x : Rat) (hne : l ≠ []) :
    ∃ e ∈ l, ∀ e' ∈ l, e'.level x ≤ e.level x := by
  induction l with
  | nil => exact absurd rfl hne
  | cons a t ih =>
    by_cases ht : t = []
    · subst ht; exact ⟨a, by simp, by intro e' he'; simp at he'; subst he'; exact le_refl _⟩
    · obtain ⟨e, he, hmax⟩ := ih ht
      by_cases hc : e.level x ≤ a.level x
      · refine ⟨a, by simp, ?_⟩
        intro e' he'
        rcases List.mem_cons.mp he' with h | h
        · subst h; exact le_refl _
        · exact le_trans (hmax e' h) hc
      · refine ⟨e, List.mem_cons_of_mem _ he, ?_⟩
        intro e' he'
        rcases List.mem_cons.mp he' with h | h
        · subst h; push Not at hc; exact le_of_lt hc
        · exact hmax e' h

theorem exists_min_level (l : List AEdge) (x : Rat) (hne : l ≠ []) :
    ∃ e ∈ l, ∀ e' ∈ l, e.level x ≤ e'.level x := by
  induction l with
  | nil => exact absurd rfl hne
  | cons a t ih =>
    by_cases ht : t = []
    · subst ht; exact ⟨a, by simp, by intro e' he'; simp at he'; subst he'; exact le_refl _⟩
    · obtain ⟨e, he, hmin⟩ := ih ht
      by_cases hc : a.level x ≤ e.level x
      · refine ⟨a, by simp, ?_⟩
        intro e' he'
        rcases List.mem_cons.mp he' with h | h
        · subst h; exact le_refl _
        · exact le_trans hc (hmin e' h)
      · refine ⟨e, List.mem_cons_of_mem _ he, ?_⟩
        intro e' he'
        rcases List.mem_cons.mp he' with h | h
        · subst h; push Not at hc; exact le_of_lt hc
        · exact hmin e' h

/-- the sample ordinates generated at abscissa `xm` -/
def sampleYs (S : List AEdge) (xm : Rat) : List Rat :=
  0 :: (S.flatMap (fun e => [e.level xm - 1, e.level xm + 1])
        ++ S.flatMap (fun e => S.map (fun f => (e.level xm + f.level xm) / 2)))

open Classical in
/-- Main combinatorial lemma: every off-edge point of the slab has the same below-pattern as a sample. -/
theorem pattern_has_sample {U crit a b} (h : CritOK U crit) (hs : IsSlab crit a b)
    (S : List AEdge) (hS : ∀ e, e ∈ S ↔ (e ∈ U ∧ e.spans a b))
    {x y : Rat} (hx : a < x ∧ x < b) (hoff : ∀ e ∈ S, e.level x ≠ y) :
    ∃ ys ∈ sampleYs S ((a + b) / 2), ∀ e ∈ U, (e.below x y ↔ e.below ((a + b) / 2) ys) := by
  have hab := hs.1
  have hm : a < (a + b) / 2 ∧ (a + b) / 2 < b := ⟨by linarith, by linarith⟩
  -- reduce the statement about all of U to a statement about S
  suffices hsuff : ∃ ys ∈ sampleYs S ((a + b) / 2), ∀ e ∈ S, (e.level x < y ↔ e.level ((a + b) / 2) < ys) by
    obtain ⟨ys, hys, hpat⟩ := hsuff
    refine ⟨ys, hys, ?_⟩
    intro e he
    unfold AEdge.below
    rw [range_const h hs he hx, range_const h hs he hm]
    constructor
    · rintro ⟨hsp, hl⟩; exact ⟨hsp, (hpat e ((hS e).2 ⟨he, hsp⟩)).1 hl⟩
    · rintro ⟨hsp, hl⟩; exact ⟨hsp, (hpat e ((hS e).2 ⟨he, hsp⟩)).2 hl⟩
  set xm := (a + b) / 2 with hxm
  let L := S.filter (fun e => decide (e.level x < y))
  let R := S.filter (fun e => decide (y < e.level x))
  have hL : ∀ e, e ∈ L ↔ (e ∈ S ∧ e.level x < y) := by intro e; simp [L]
  have hR : ∀ e, e ∈ R ↔ (e ∈ S ∧ y < e.level x) := by intro e; simp [R]
  have hsplit : ∀ e ∈ S, e ∈ L ∨ e ∈ R := by
    intro e he
    rcases lt_or_gt_of_ne (hoff e he) with h' | h'
    · exact Or.inl ((hL e).2 ⟨he, h'⟩)
    · exact Or.inr ((hR e).2 ⟨he, h'⟩)
  have hord : ∀ e ∈ S, ∀ f ∈ S, (e.level x < f.level x ↔ e.level xm < f.level xm) := by
    intro e he f hf
    exact span_order_const h hs ((hS e).1 he).1 ((hS f).1 hf).1 ((hS e).1 he).2 ((hS f).1 hf).2 hx hm
  by_cases hLe : L = []
  · -- nothing below: take a sample under the lowest level
    by_cases hSe : S = []
    · refine ⟨0, by simp [sampleYs], ?_⟩
      intro e he; rw [hSe] at he; simp at he
    · obtain ⟨e0, he0, hmin⟩ := exists_min_level S xm hSe
      refine ⟨e0.level xm - 1, ?_, ?_⟩
      · simp only [sampleYs, List.mem_cons, List.mem_append, List.mem_flatMap]
        right; left; exact ⟨e0, he0, by simp⟩
      · intro e he
        have hnl : ¬ e.level x < y := by
          intro hc; have : e ∈ L := (hL e).2 ⟨he, hc⟩; rw [hLe] at this; simp at this
        constructor
        · intro hc; exact absurd hc hnl
        · intro hc; have := hmin e he; linarith
  · by_cases hRe : R = []
    · obtain ⟨e1, he1, hmax⟩ := exists_max_level S xm (by
        intro hc; apply hLe; apply List.eq_nil_iff_forall_not_mem.2; intro e he
        have := ((hL e).1 he).1; rw [hc] at this; simp at this)
      refine ⟨e1.level xm + 1, ?_, ?_⟩
      · simp only [sampleYs, List.mem_cons, List.mem_append, List.mem_flatMap]
        right; left; exact ⟨e1, he1, by simp⟩
      · intro e he
        have hl : e.level x < y := by
          rcases hsplit e he with h' | h'
          · exact ((hL e).1 h').2
          · rw [hRe] at h'; simp at h'
        constructor
        · intro _; have := hmax e he; linarith
        · intro _; exact hl
    · obtain ⟨eL, heL, hmaxL⟩ := exists_max_level L xm hLe
      obtain ⟨eR, heR, hminR⟩ := exists_min_level R xm hRe
      have heLS := ((hL eL).1 heL).1
      have heRS := ((hR eR).1 heR).1
      have hlt : eL.level xm < eR.level xm := by
        apply (hord eL heLS eR heRS).1
        have h1 := ((hL eL).1 heL).2
        have h2 := ((hR eR).1 heR).2
        linarith
      refine ⟨(eL.level xm + eR.level xm) / 2, ?_, ?_⟩
      · simp only [sampleYs, List.mem_cons, List.mem_append, List.mem_flatMap, List.mem_map]
        right; right; exact ⟨eL, heLS, eR, heRS, rfl⟩
      · intro e he
        rcases hsplit e he with h' | h'
        · have h1 := hmaxL e h'
          have hl := ((hL e).1 h').2
          constructor
          · intro _; linarith
          · intro _; exact hl
        · have h1 := hminR e h'
          have hr := ((hR e).1 h').2
          constructor
          · intro hc; linarith
          · intro hc; linarith

#print axioms pattern_has_sample
